#!/usr/bin/env python3
"""Apply a behaviour-preserving change to /repo, run every quick check (all must exit 0), undo it.

  tools/refrun.py <dir-with-patch.diff> [props...]
"""
import sys, os, subprocess, json, time

# MUT_REPO: a scratch worktree of /repo to work in (default: /repo itself); the checks are pointed at it through VERIF_REPO
REPO = os.environ.get("MUT_REPO", "/repo")
ALL = ["C%02d" % i for i in range(1, 21)]
def main():
    d = sys.argv[1]
    props = sys.argv[2:] or ALL
    st = subprocess.run(["git", "-C", REPO, "status", "--porcelain", "--untracked-files=no"], capture_output=True, text=True).stdout.strip()
    if st:
        print("refusing: /repo has local modifications"); return 2
    r = subprocess.run(["git", "-C", REPO, "apply", "--whitespace=nowarn", os.path.join(d, "patch.diff")], capture_output=True, text=True)
    if r.returncode != 0:
        print("PATCH-DOES-NOT-APPLY", d, r.stderr.strip()[:300]); return 2
    res = {}
    try:
        for p in props:
            t0 = time.time()
            rr = subprocess.run(["/verif/vcheck", p, "--tier", "quick"], cwd="/verif", env=dict(os.environ, VERIF_REPO=REPO), capture_output=True, text=True)
            res[p] = rr.returncode
            if rr.returncode != 0:
                print("ALARM %s %s rc=%d\n   %s" % (os.path.basename(os.path.normpath(d)), p, rr.returncode, "\n   ".join((rr.stdout + rr.stderr).splitlines()[-8:])))
    finally:
        subprocess.run(["git", "-C", REPO, "checkout", "--", "."], check=True)
    bad = {p: c for p, c in res.items() if c != 0}
    print("%s %s: %d checks, %s" % ("SILENT" if not bad else "NOT-SILENT", d, len(res), bad or "all exit 0"))
    json.dump(res, open(os.path.join(d, "refrun_result.json"), "w"))
    return 0
if __name__ == "__main__":
    sys.exit(main())
