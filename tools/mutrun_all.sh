#!/bin/bash
# mutrun_all.sh <dir>... : run the quick check of the property named by the directory prefix (Cxx-m*) for each dir
for d in "$@"; do
  [ -f "$d/patch.diff" ] || continue
  [ -f "$d/vcheck_result.json" ] && [ -z "$FORCE" ] && continue
  p=$(basename "$d" | cut -d- -f1)
  /verif/tools/mutrun.py "$d" $p 2>&1 | grep -v "^vcheck: built"
done
