#!/usr/bin/env python3
"""Rewrites the seeded-changes table in DESIGN.md from /verif/seeded/*/meta.json."""
import json, glob, os, re
rows = []
for f in sorted(glob.glob("/verif/seeded/*/meta.json")):
    m = json.load(open(f))
    caught = []
    for p, v in sorted(m["checks_run"].items()):
        sigs = ", ".join("`%s`" % s for s in v["sigs"][:3])
        caught.append("%s %s%s" % (p, v["verdict"].lower(), (": " + sigs) if sigs else ""))
    rows.append("| %s | %s | %s | %s | %s |" % (m["id"], m["change"], m["needs_to_manifest"], "; ".join(caught), m.get("detection_note", "") or "caught as built"))
tbl = "| id | change | needs | quick check result (signatures) | note |\n|---|---|---|---|---|\n" + "\n".join(rows) + "\n"
n_total = len(rows)
p = "/verif/DESIGN.md"
s = open(p).read()
a = s.index("<!-- SEEDED-TABLE-BEGIN -->") + len("<!-- SEEDED-TABLE-BEGIN -->")
b = s.index("<!-- SEEDED-TABLE-END -->")
s = s[:a] + "\n%d seeded changes kept.\n\n" % n_total + tbl + s[b:]
open(p, "w").write(s)
print("table rows:", n_total)
