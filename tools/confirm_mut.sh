#!/bin/bash
# confirm_mut.sh <dir with patch.diff + demo_test.go>
# Confirms in a scratch worktree of /repo HEAD (removed afterwards):
#   demo passes without the change, fails with it, existing tests pass with it.
# Writes <dir>/confirm.txt. Exit 0 iff all three hold.
export GOFLAGS=-mod=mod GOPROXY=off GOSUMDB=off GOTOOLCHAIN=local
d=$(realpath "$1"); name=$(basename "$d")
wt=/tmp/cw/$name.$$
mkdir -p /tmp/cw
git -C /repo worktree add -q "$wt" HEAD || exit 2
trap 'git -C /repo worktree remove --force "$wt" >/dev/null 2>&1' EXIT
demo=$(ls "$d"/*_test.go 2>/dev/null | head -1)
pkg=$(grep -m1 '^package ' "$demo" | awk '{print $2}')
case "$pkg" in
  grpcgcp) pdir=grpcgcp; mod=grpcgcp;;
  multiendpoint) pdir=grpcgcp/multiendpoint; mod=grpcgcp;;
  test_grpc|test_grpc_test) pdir=grpcgcp/test_grpc; mod=grpcgcp;;
  prober) pdir=spanner_prober/prober; mod=spanner_prober;;
  main) if grep -q "myCodec\|e2e-checksum" "$demo"; then pdir=e2e-checksum; mod=e2e-checksum; else pdir=spanner_prober; mod=spanner_prober; fi;;
  *) pdir=${2:-grpcgcp}; mod=${pdir%%/*};;
esac
[ -n "$2" ] && pdir=$2 && mod=${2%%/*}
out="$d/confirm.txt"; : > "$out"
cp "$demo" "$wt/$pdir/zz_demo_test.go"
RACE=""; grep -qs -- "-race" "$d/README.md" && RACE="-race"
run_demo() { (cd "$wt/$pdir" && timeout 600 go test $RACE -vet=off -count=1 -run "$(grep -o 'func Test[A-Za-z0-9_]*' zz_demo_test.go | sed 's/func //' | paste -sd'|')" . ) > "$1" 2>&1; }
run_demo /tmp/cw/$name.$$.a; ra=$?
echo "demo without change: rc=$ra" >> "$out"
if ! git -C "$wt" apply --whitespace=nowarn "$d/patch.diff" 2>>"$out"; then echo "PATCH DOES NOT APPLY" >> "$out"; cat "$out"; exit 2; fi
run_demo /tmp/cw/$name.$$.b; rb=$?
echo "demo with change: rc=$rb" >> "$out"; tail -15 /tmp/cw/$name.$$.b | sed 's/^/    /' >> "$out"
rm "$wt/$pdir/zz_demo_test.go"
rs=1
for try in 1 2 3 4 5 6 7 8; do
  # private network namespace: test_grpc binds TCP port 50051, other runs on this host collide
  (cd "$wt/$mod" && timeout 900 unshare -n sh -c 'ip link set lo up; go test -vet=off -count=1 -p 1 ./...' ) > /tmp/cw/$name.$$.s 2>&1; rs=$?
  if [ "$mod" = spanner_prober ]; then
     # the pinned tree fails TestValidFlags/invalid_options; accept exactly that failure
     if ! grep -- '--- FAIL' /tmp/cw/$name.$$.s | grep -v 'TestValidFlags' | grep -q .; then rs=0; fi
  fi
  [ $rs = 0 ] && break
  # load-sensitive tests of the repository itself (10-50 ms margins): retry
  if grep -q -- '--- FAIL: TestRoundRobin\|--- FAIL: TestGCPMultiEndpoint' /tmp/cw/$name.$$.s; then sleep 2; continue; fi
  if grep -q 'gcp_multiendpoint_test.go:441\|Failed to setup\|already in use\|failed to listen\|connection refused\|FAIL.*test_grpc.*0.0[0-9][0-9]s' /tmp/cw/$name.$$.s; then sleep $((RANDOM % 5 + 1)); continue; fi
  break
done
echo "existing tests with change: rc=$rs (tries=$try)" >> "$out"; grep -- '--- FAIL\|^FAIL\|^ok' /tmp/cw/$name.$$.s | head -12 | sed 's/^/    /' >> "$out"
rm -f /tmp/cw/$name.$$.a /tmp/cw/$name.$$.b /tmp/cw/$name.$$.s
cat "$out"
[ $ra = 0 ] && [ $rb != 0 ] && [ $rs = 0 ]
