#!/usr/bin/env python3
"""Apply a seeded change to /repo, run the quick checks of the given properties, undo it.

  tools/mutrun.py <dir-with-patch.diff> <prop> [<prop> ...] [--tier quick|thorough] [--seed N]

Prints one line per check: CAUGHT (exit 1 + VIOLATION), MISSED (exit 0), or INCONCLUSIVE (exit 2).
Never leaves /repo modified.
"""
import sys, os, subprocess, json, time

# MUT_REPO: a scratch worktree of /repo to work in (default: /repo itself); the checks are pointed at it through VERIF_REPO
REPO = os.environ.get("MUT_REPO", "/repo")

def main():
    args = sys.argv[1:]
    d = args[0]
    props, tier, seed = [], "quick", "1"
    i = 1
    while i < len(args):
        if args[i] == "--tier":
            tier = args[i + 1]; i += 2
        elif args[i] == "--seed":
            seed = args[i + 1]; i += 2
        else:
            props.append(args[i]); i += 1
    patch = os.path.join(d, "patch.diff")
    st = subprocess.run(["git", "-C", REPO, "status", "--porcelain", "--untracked-files=no"], capture_output=True, text=True).stdout.strip()
    if st:
        print("refusing: /repo has local modifications:\n" + st); return 2
    r = subprocess.run(["git", "-C", REPO, "apply", "--whitespace=nowarn", patch], capture_output=True, text=True)
    if r.returncode != 0:
        print("PATCH-DOES-NOT-APPLY", d, r.stderr.strip()[:300]); return 2
    results = {}
    try:
        for p in props:
            t0 = time.time()
            env = dict(os.environ, VERIF_SEED=seed, VERIF_TIER=tier, VERIF_REPO=REPO)
            rr = subprocess.run(["/verif/vcheck", p, "--tier", tier], cwd="/verif", env=env, capture_output=True, text=True)
            viols = [l for l in rr.stdout.splitlines() if l.startswith("VIOLATION")]
            verdict = {0: "MISSED", 1: "CAUGHT"}.get(rr.returncode, "INCONCLUSIVE")
            sigs = sorted(set(l.split("sig=")[1].split(" ::")[0] for l in viols if "sig=" in l))
            results[p] = dict(verdict=verdict, sigs=sigs, wall_s=round(time.time() - t0, 1))
            print("%-12s %s %s %s (%.0fs)" % (verdict, os.path.basename(os.path.normpath(d)), p, sigs[:6], time.time() - t0))
            if verdict == "INCONCLUSIVE":
                print("   " + "\n   ".join((rr.stderr + rr.stdout).splitlines()[-6:]))
    finally:
        subprocess.run(["git", "-C", REPO, "checkout", "--", "."], check=True)
    json.dump(results, open(os.path.join(d, "vcheck_result.json"), "w"), indent=1)
    return 0

if __name__ == "__main__":
    sys.exit(main())
