#!/bin/bash
# confirm_all.sh <dir>... : run confirm_mut.sh for each dir lacking a final confirm result, 4 in parallel
for d in "$@"; do
  [ -f "$d/patch.diff" ] || continue
  if [ -f "$d/confirm.txt" ] && grep -q "existing tests with change: rc=0" "$d/confirm.txt" && grep -q "demo without change: rc=0" "$d/confirm.txt"; then continue; fi
  echo "$d"
done | xargs -r -P 1 -I{} sh -c '/verif/tools/confirm_mut.sh {} >/dev/null 2>&1; echo "{} exit=$?"'
