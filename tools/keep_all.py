#!/usr/bin/env python3
"""Copies confirmed seeded changes from the sub-agents' output directories into /verif/seeded/<id>/
(patch.diff, demonstration, README.md) and writes meta.json from the confirmation and check results."""
import os, sys, json, shutil, glob

SRC = "/tmp/mut/out"
META = {
 # id: (agent dir, property, change, needs, note on detection)
 "C01-m1": ("a01", "C01", "Done callback binds reply keys to the SubConn captured at pick time instead of the channel's current one", "a BIND call in flight while its channel completes a refresh (picked before the swap, completed after)", ""),
 "C01-m2": ("a01", "C01", "refresh-completion re-keying loop writes bound keys into fallbackMap instead of affinityMap", "a bound key whose channel is refreshed, fallback disabled", ""),
 "C01-m3": ("a01", "C01", "bindSubConnRef treats a key as unbound when its channel is not READY", "a second BIND returning K while K's channel is momentarily TRANSIENT_FAILURE", ""),
 "C02-m1": ("a02", "C02", "refresh swap zeroes the channel's active-stream counter", "calls still in flight across a completed refresh", ""),
 "C02-m2": ("a02", "C02", "regeneratePicker rebuilds the READY list in a reused scratch slice, overwriting already published pickers", "a pick on a stale picker after the READY set changed", ""),
 "C03-m1": ("a02", "C03", "locked maxSize re-check in newSubConn weakened from >= to >", "two picks on different pickers that both passed the unlocked size check; the first one's new channel already READY (gate scenario)", ""),
 "C03-m2": ("a02", "C03", "growth decision compares the picker's READY snapshot length with maxSize instead of the pool size", "pool at maxSize with one channel not READY and every READY channel at the watermark", "initially attributed to C02 only (rule C02.at-max); C03.at-max-placed / C03.growth-wait now report it under C03"),
 "C04-m1": ("a03", "C04", "replacement inherits the old connection's state after it was deleted (always IDLE): evaluator counters drift", "a completed refresh of a READY/CONNECTING connection, then every pool connection failing", ""),
 "C04-m2": ("a03", "C04", "early return on Shutdown: the transition is never recorded or published", "a Shutdown report for a READY/CONNECTING pool connection, then the rest failing", ""),
 "C04-m3": ("a03", "C04", "publish condition uses the connection's own TF change instead of the aggregate's", "aggregate change to/from TRANSIENT_FAILURE caused by IDLE->CONNECTING or CONNECTING->SHUTDOWN with nothing READY", ""),
 "C05-m1": ("a11", "C05", "bindSubConnRef loses its 'SubConn still known' guard", "a BIND completing successfully after its SubConn was reported SHUTDOWN", ""),
 "C05-m2": ("a11", "C05", "unchecked gb.picker.(*gcpPicker) assertion in the fallback path", "pick on a superseded picker, bound key's channel not READY, fallback on, whole pool in TRANSIENT_FAILURE", ""),
 "C06-m1": ("a11", "C06", "fallback path (gb.mu held) calls getLeastBusySubConnRef, which re-locks gb.mu when saturated", "fallback pick with every READY channel at the watermark", ""),
 "C06-m2": ("a11", "C06", "refresh() forgets gb.mu.Unlock() on the NewSubConn error path", "a failing connection factory exactly at a refresh attempt", ""),
 "C07-m1": ("a04", "C07", "refresh() no longer resets ref.refreshing when creating the replacement fails", "NewSubConn failing exactly at refresh time, then another qualifying completion", ""),
 "C07-m2": ("a04", "C07", "deCalls incremented before the 'call started before last response' return", "calls in flight when a response arrives, later ending with client deadline errors", ""),
 "C07-m3": ("a04", "C07", "replacement READY sets its recorded state to READY instead of inheriting the old connection's", "the old connection leaves READY while the refresh is in progress", "initially reported only by the C04 check (C04.missing-publish); C07.swap-takeover now reports it under C07"),
 "C08-m1": ("a05", "C08", "stand-in entries are not carried over to the replacement SubConn at refresh completion", "home down, stand-in established, then the stand-in refreshed", ""),
 "C08-m2": ("a05", "C08", "stale stand-in dropped only on TRANSIENT_FAILURE/SHUTDOWN, not on any departure from READY", "stand-in goes READY->IDLE while another READY channel exists", ""),
 "C09-m1": ("a05", "C09", "round-robin wait loop condition != Ready became < Ready", "assigned channel in TRANSIENT_FAILURE while the BIND call's context is live", ""),
 "C09-m2": ("a05", "C09", "early return for an ended context in getSubConnRoundRobin forgets RUnlock", "a BIND pick with an already ended context whose slot is not READY; the next state report blocks forever", "initially reported only by the C06 check (C06.lock-held); C09.others-unaffected now reports it under C09"),
 "C10-m1": ("a11", "C10", "unlocked 'if ref.refreshing' fast path in front of gb.mu.Lock() in refresh()", "several qualifying deadline-exceeded completions running concurrently", "missed in 1 of 4 quick runs at first (2-6 completed swaps per run); the refresh-heavy workload (~400 swaps per run) now reports it in every run"),
 "C10-m2": ("a11", "C10", "delayed-switch timer callback takes RLock but writes me.current", "SwitchingDelay > 0 and a delayed switch actually carried out while Current() is called", ""),
 "C11-m1": ("a09", "C11", "fan-out loop over a repeated field keeps only the last element's error", "a nil / non-string element followed by a good last element", ""),
 "C11-m2": ("a09", "C11", "fieldByName nil-checks only the first embedded pointer", "a field promoted through two levels of embedded pointers, outer set, inner nil", "initially missed (generator named fields promoted through one level only); locators now descend up to 3 embedding levels and embedded types embed again more often"),
 "C12-m1": ("a08", "C12", "cs.initStreamErr = nil after a successful creation dropped", "first SendMsg fails creation, retried SendMsg succeeds, then RecvMsg/Header", ""),
 "C12-m2": ("a08", "C12", "context watcher broadcasts without first taking the stream's lock", "context cancelled between the waiter's ctx.Err() check and its cond.Wait()", "initially missed; the gate scenario cancel-in-wait-window (receiver held at the yield site before cond.Wait) now reports it"),
 "C12-m3": ("a08", "C12", "unary interceptor skips attaching a fresh gcpContext when the caller's context already carries one", "a unary call issued with a context derived from another intercepted call", "initially missed; unary programs now include contexts that already carry a gcpContext"),
 "C13-m1": ("a06", "C13", "SetEndpoints re-evaluates current only when a member was added or removed", "a pure reorder of the same members that changes the top available endpoint", ""),
 "C13-m2": ("a06", "C13", "repeated 'unavailable' for an endpoint whose window ran out puts it back into recovering", "RecoveryTimeout > 0, expired window, repeated false report, then a lower-priority endpoint turning available", ""),
 "C14-m1": ("a06", "C14", "immediate-switch condition f.status == unavailable became != available", "SwitchingDelay > 0, recovering current, higher-priority endpoint reported available inside the window", ""),
 "C14-m2": ("a06", "C14", "outdated-switch check in the timer callback skips the current endpoint", "pending delayed switch, then a reorder putting the current endpoint above the target before the timer fires", ""),
 "C15-m1": ("a07", "C15", "final status sync informs only MultiEndpoints that already existed", "a new MultiEndpoint whose top endpoint is down and which has a kept READY pool lower in its list", ""),
 "C15-m2": ("a07", "C15", "gme.defaultName = meOpts.Default dropped from UpdateMultiEndpoints", "a reconfiguration that changes the default name", ""),
 "C16-m1": ("a07", "C16", "dial-failure rollback closes the pools it created but leaves them in gme.pools", "dial failure at the 2nd+ new dial, then a valid update naming the rolled-back endpoint", "initially missed; C16 sequences now follow a rejected dial-failure update with a valid update that gives the rolled-back endpoints a MultiEndpoint of their own, and check that every mentioned endpoint has an open pool"),
 "C16-m2": ("a07", "C16", "defaultName assigned before the validation and the dials", "a rejected update (empty list / dial failure) that also changes Default", "initially missed; invalid updates now also name another existing default in half of the cases"),
 "C17-m1": ("a09", "C17", "initializeConfig clones the supplied ApiConfig only when a default has to be filled in", "minSize, maxSize and watermark all non-zero, then the caller edits its object", ""),
 "C17-m2": ("a09", "C17", "method-mapping loop uses break instead of continue for an entry without affinity", "an affinity-less entry preceding entries with affinity sections", ""),
 "C18-m1": ("a10", "C18", "qps check simplified to *qps <= 0 || *qps > 1000 (NaN accepted)", "-qps=NaN", ""),
 "C18-m2": ("a10", "C18", "backoff no longer clamps the converted result to [base, max]", "delays of 2^53 ns or more", ""),
 "C19-m1": ("a10", "C19", "early 'if err != nil' after the underlying Marshal removed; later assignments overwrite the error", "an inner codec error", ""),
 "C19-m2": ("a10", "C19", "per-call encoder replaced by a shared package-level buffer", "payloads of <= 2 bytes: a later Marshal overwrites an earlier output", "initially missed (each output was only checked right after its own call); the last 8 outputs are now re-verified after every later call"),
 "C20-m1": ("a10", "C20", "UpdateClientConnState skips subConnRefs that are being refreshed", "a resolver update arriving while a refresh is in flight", ""),
 "C20-m2": ("a10", "C20", "ResolverError installs an error picker and publishes when the aggregate is not READY", "a resolver error while no connection is READY", ""),
}

def main():
    kept, skipped = [], []
    for mid, (agent, prop, change, needs, note) in sorted(META.items()):
        d = os.path.join(SRC, agent, mid)
        conf = os.path.join(d, "confirm.txt")
        res = os.path.join(d, "vcheck_result.json")
        if not (os.path.exists(conf) and os.path.exists(res)):
            skipped.append((mid, "no confirmation or check result yet")); continue
        ctext = open(conf).read()
        ok = "demo without change: rc=0" in ctext and "existing tests with change: rc=0" in ctext and "demo with change: rc=0" not in ctext
        if not ok:
            skipped.append((mid, "not confirmed: " + " | ".join(l for l in ctext.splitlines() if not l.startswith("    ")))); continue
        r = json.load(open(res))
        dst = os.path.join("/verif/seeded", mid)
        os.makedirs(dst, exist_ok=True)
        for f in ["patch.diff", "README.md"] + [os.path.basename(x) for x in glob.glob(os.path.join(d, "*_test.go"))]:
            if os.path.exists(os.path.join(d, f)):
                shutil.copy(os.path.join(d, f), os.path.join(dst, f))
        shutil.copy(conf, os.path.join(dst, "confirm.txt"))
        meta = dict(id=mid, property=prop, change=change, needs_to_manifest=needs,
                    source="independent sub-agent given only the property text and a scratch worktree of /repo",
                    confirmed_by="tools/confirm_mut.sh in a scratch worktree of /repo HEAD: demonstration passes without the change, fails with it, the repository's own tests pass with it (see confirm.txt)",
                    checks_run={p: v for p, v in r.items()},
                    caught_by=sorted(p for p, v in r.items() if v["verdict"] == "CAUGHT"),
                    detection_note=note)
        json.dump(meta, open(os.path.join(dst, "meta.json"), "w"), indent=1)
        kept.append(mid)
    print("kept", len(kept), kept)
    for m, why in skipped:
        print("skipped", m, why)

if __name__ == "__main__":
    main()
