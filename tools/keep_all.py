#!/usr/bin/env python3
"""Copies confirmed seeded changes from the sub-agents' output directories into /verif/seeded/<id>/
(patch.diff, demonstration, README.md) and writes meta.json from the confirmation and check results."""
import os, sys, json, shutil, glob

SRC = "/tmp/mut/out"
META = {
 # id: (agent dir, property, change, needs, note on detection)
 "C01-m1": ("a01", "C01", "Done callback binds reply keys to the SubConn captured at pick time instead of the channel's current one", "a BIND call in flight while its channel completes a refresh (picked before the swap, completed after)", ""),
 "C01-m2": ("a01", "C01", "refresh-completion re-keying loop writes bound keys into fallbackMap instead of affinityMap", "a bound key whose channel is refreshed, fallback disabled", ""),
 "C01-m3": ("a01", "C01", "bindSubConnRef treats a key as unbound when its channel is not READY", "a second BIND returning K while K's channel is momentarily TRANSIENT_FAILURE", ""),
 "C02-m1": ("a02", "C02", "refresh swap zeroes the channel's active-stream counter", "calls still in flight across a completed refresh", ""),
 "C02-m2": ("a02", "C02", "regeneratePicker rebuilds the READY list in a reused scratch slice, overwriting already published pickers", "a pick on a stale picker after the READY set changed", ""),
 "C03-m1": ("a02", "C03", "locked maxSize re-check in newSubConn weakened from >= to >", "two picks on different pickers that both passed the unlocked size check; the first one's new channel already READY (gate scenario)", ""),
 "C03-m2": ("a02", "C03", "growth decision compares the picker's READY snapshot length with maxSize instead of the pool size", "pool at maxSize with one channel not READY and every READY channel at the watermark", "initially attributed to C02 only (rule C02.at-max); C03.at-max-placed / C03.growth-wait now report it under C03"),
 "C04-m1": ("a03", "C04", "replacement inherits the old connection's state after it was deleted (always IDLE): evaluator counters drift", "a completed refresh of a READY/CONNECTING connection, then every pool connection failing", ""),
 "C04-m2": ("a03", "C04", "early return on Shutdown: the transition is never recorded or published", "a Shutdown report for a READY/CONNECTING pool connection, then the rest failing", ""),
 "C04-m3": ("a03", "C04", "publish condition uses the connection's own TF change instead of the aggregate's", "aggregate change to/from TRANSIENT_FAILURE caused by IDLE->CONNECTING or CONNECTING->SHUTDOWN with nothing READY", ""),
 "C05-m1": ("a11", "C05", "bindSubConnRef loses its 'SubConn still known' guard", "a BIND completing successfully after its SubConn was reported SHUTDOWN", ""),
 "C05-m2": ("a11", "C05", "unchecked gb.picker.(*gcpPicker) assertion in the fallback path", "pick on a superseded picker, bound key's channel not READY, fallback on, whole pool in TRANSIENT_FAILURE", ""),
 "C06-m1": ("a11", "C06", "fallback path (gb.mu held) calls getLeastBusySubConnRef, which re-locks gb.mu when saturated", "fallback pick with every READY channel at the watermark", ""),
 "C06-m2": ("a11", "C06", "refresh() forgets gb.mu.Unlock() on the NewSubConn error path", "a failing connection factory exactly at a refresh attempt", ""),
 "C07-m1": ("a04", "C07", "refresh() no longer resets ref.refreshing when creating the replacement fails", "NewSubConn failing exactly at refresh time, then another qualifying completion", ""),
 "C07-m2": ("a04", "C07", "deCalls incremented before the 'call started before last response' return", "calls in flight when a response arrives, later ending with client deadline errors", ""),
 "C07-m3": ("a04", "C07", "replacement READY sets its recorded state to READY instead of inheriting the old connection's", "the old connection leaves READY while the refresh is in progress", "initially reported only by the C04 check (C04.missing-publish); C07.swap-takeover now reports it under C07"),
 "C08-m1": ("a05", "C08", "stand-in entries are not carried over to the replacement SubConn at refresh completion", "home down, stand-in established, then the stand-in refreshed", ""),
 "C08-m2": ("a05", "C08", "stale stand-in dropped only on TRANSIENT_FAILURE/SHUTDOWN, not on any departure from READY", "stand-in goes READY->IDLE while another READY channel exists", ""),
 "C09-m1": ("a05", "C09", "round-robin wait loop condition != Ready became < Ready", "assigned channel in TRANSIENT_FAILURE while the BIND call's context is live", ""),
 "C09-m2": ("a05", "C09", "early return for an ended context in getSubConnRoundRobin forgets RUnlock", "a BIND pick with an already ended context whose slot is not READY; the next state report blocks forever", "initially reported only by the C06 check (C06.lock-held); C09.others-unaffected now reports it under C09"),
 "C10-m1": ("a11", "C10", "unlocked 'if ref.refreshing' fast path in front of gb.mu.Lock() in refresh()", "several qualifying deadline-exceeded completions running concurrently", "missed in 1 of 4 quick runs at first (2-6 completed swaps per run); the refresh-heavy workload (~400 swaps per run) now reports it in every run"),
 "C10-m2": ("a11", "C10", "delayed-switch timer callback takes RLock but writes me.current", "SwitchingDelay > 0 and a delayed switch actually carried out while Current() is called", ""),
 "C11-m1": ("a09", "C11", "fan-out loop over a repeated field keeps only the last element's error", "a nil / non-string element followed by a good last element", ""),
 "C11-m2": ("a09", "C11", "fieldByName nil-checks only the first embedded pointer", "a field promoted through two levels of embedded pointers, outer set, inner nil", "initially missed (generator named fields promoted through one level only); locators now descend up to 3 embedding levels and embedded types embed again more often"),
 "C12-m1": ("a08", "C12", "cs.initStreamErr = nil after a successful creation dropped", "first SendMsg fails creation, retried SendMsg succeeds, then RecvMsg/Header", ""),
 "C12-m2": ("a08", "C12", "context watcher broadcasts without first taking the stream's lock", "context cancelled between the waiter's ctx.Err() check and its cond.Wait()", "initially missed; the gate scenario cancel-in-wait-window (receiver held at the yield site before cond.Wait) now reports it"),
 "C12-m3": ("a08", "C12", "unary interceptor skips attaching a fresh gcpContext when the caller's context already carries one", "a unary call issued with a context derived from another intercepted call", "initially missed; unary programs now include contexts that already carry a gcpContext"),
 "C13-m1": ("a06", "C13", "SetEndpoints re-evaluates current only when a member was added or removed", "a pure reorder of the same members that changes the top available endpoint", ""),
 "C13-m2": ("a06", "C13", "repeated 'unavailable' for an endpoint whose window ran out puts it back into recovering", "RecoveryTimeout > 0, expired window, repeated false report, then a lower-priority endpoint turning available", ""),
 "C14-m1": ("a06", "C14", "immediate-switch condition f.status == unavailable became != available", "SwitchingDelay > 0, recovering current, higher-priority endpoint reported available inside the window", ""),
 "C14-m2": ("a06", "C14", "outdated-switch check in the timer callback skips the current endpoint", "pending delayed switch, then a reorder putting the current endpoint above the target before the timer fires", ""),
 "C15-m1": ("a07", "C15", "final status sync informs only MultiEndpoints that already existed", "a new MultiEndpoint whose top endpoint is down and which has a kept READY pool lower in its list", ""),
 "C15-m2": ("a07", "C15", "gme.defaultName = meOpts.Default dropped from UpdateMultiEndpoints", "a reconfiguration that changes the default name", ""),
 "C16-m1": ("a07", "C16", "dial-failure rollback closes the pools it created but leaves them in gme.pools", "dial failure at the 2nd+ new dial, then a valid update naming the rolled-back endpoint", "initially missed; C16 sequences now follow a rejected dial-failure update with a valid update that gives the rolled-back endpoints a MultiEndpoint of their own, and check that every mentioned endpoint has an open pool"),
 "C16-m2": ("a07", "C16", "defaultName assigned before the validation and the dials", "a rejected update (empty list / dial failure) that also changes Default", "initially missed; invalid updates now also name another existing default in half of the cases"),
 "C17-m1": ("a09", "C17", "initializeConfig clones the supplied ApiConfig only when a default has to be filled in", "minSize, maxSize and watermark all non-zero, then the caller edits its object", ""),
 "C17-m2": ("a09", "C17", "method-mapping loop uses break instead of continue for an entry without affinity", "an affinity-less entry preceding entries with affinity sections", ""),
 "C18-m1": ("a10", "C18", "qps check simplified to *qps <= 0 || *qps > 1000 (NaN accepted)", "-qps=NaN", ""),
 "C18-m2": ("a10", "C18", "backoff no longer clamps the converted result to [base, max]", "delays of 2^53 ns or more", ""),
 "C19-m1": ("a10", "C19", "early 'if err != nil' after the underlying Marshal removed; later assignments overwrite the error", "an inner codec error", ""),
 "C19-m2": ("a10", "C19", "per-call encoder replaced by a shared package-level buffer", "payloads of <= 2 bytes: a later Marshal overwrites an earlier output", "initially missed (each output was only checked right after its own call); the last 8 outputs are now re-verified after every later call"),
 "C20-m1": ("a10", "C20", "UpdateClientConnState skips subConnRefs that are being refreshed", "a resolver update arriving while a refresh is in flight", ""),
 "C20-m2": ("a10", "C20", "ResolverError installs an error picker and publishes when the aggregate is not READY", "a resolver error while no connection is READY", ""),
}

META2 = {
 "C01-m1": ("b01", "C01", "a BIND completing after its channel was refreshed binds to the SubConn picked earlier (never bound)", "a refresh takeover between BIND pick and completion", ""),
 "C01-m2": ("b01", "C01", "getReadySubConnRef consults fallbackMap[key] before the home channel's state", "fallback on: BIND K on H, H down, K gets stand-in S, UNBIND K succeeds, BIND K again on another READY channel O; BOUND K then goes to the stale stand-in", "initially missed (needs a 6-step sequence under fallback); the directed macro rebind-after-fallback-unbind, judged by the ordinary rules, now reports it"),
 "C08-m1": ("b01", "C08", "affinity/fallback re-keying at refresh takeover wrapped in 'if affinityCnt > 0'", "a stand-in with no bound keys of its own refreshed while serving", ""),
 "C08-m2": ("b01", "C08", "break after the first delete in the broken-stand-in cleanup loop", "two or more keys sharing one stand-in when it leaves READY", ""),
 "C02-m1": ("b02", "C02", "stream-count increment for RR BIND moved into getSubConnRoundRobin; the ctx.Done() exit forgets it", "a BIND whose context ends while it waits for a non-READY channel", ""),
 "C02-m2": ("b02", "C02", "regeneratePicker builds the READY list in a scratch slice kept on the balancer", "a pick through a stale picker after a later regeneration", ""),
 "C09-m1": ("b02", "C09", "RR wait loop condition != Ready became < Ready", "assigned channel in TRANSIENT_FAILURE / Shutdown", ""),
 "C09-m2": ("b02", "C09", "atomic ticket replaced by gb.rrRefId++ under the shared RLock", "concurrent BIND picks (lost / duplicated tickets)", "initially missed by the C09 check (160 picks per run were too few; the C10 check reported the race); half of the exact-count runs now issue 1 000-12 000 picks from 8-16 goroutines"),
 "C03-m1": ("b03", "C03", "growth decision compares the picker's READY snapshot length with maxSize", "pool at maxSize, one channel in TRANSIENT_FAILURE, every READY channel at the watermark", ""),
 "C03-m2": ("b03", "C03", "empty-pool branch of UpdateClientConnState calls addSubConn instead of enforceMinSize", "pool creation failed on the update that delivered the config (empty address list), then an update with addresses", "initially missed (C03 histories never started with an empty address list); they now do in 35% of the cases"),
 "C20-m1": ("b03", "C20", "address-update loop skips refs that are being refreshed", "a resolver update while a refresh is in flight", ""),
 "C20-m2": ("b03", "C20", "emptied-pool condition weakened to len(scRefs) < minSize with the early return kept", "a partially created pool, then a resolver update", ""),
 "C04-m1": ("b04", "C04", "replacement READY sets its recorded state to READY instead of inheriting", "old connection not READY when the replacement becomes READY", ""),
 "C04-m2": ("b04", "C04", "Shutdown of a non-READY connection returns before the publish step", "the last CONNECTING connection shut down while the others are in TRANSIENT_FAILURE", ""),
 "C07-m1": ("b04", "C07", "deCallsInc() moved above the 'started before last response' return", "deadline-exceeded calls in flight across a response", ""),
 "C07-m2": ("b04", "C07", "refreshCnt++ moved into refresh() before NewSubConn; error path only rolls back refreshing", "NewSubConn fails once; the next qualifying call ends between one and two windows after the last response", ""),
 "C05-m1": ("b05", "C05", "at refresh completion scRefs is updated only if the old SubConn is still in the pool, scStates unconditionally", "old SubConn shut down during the refresh, replacement READY, then a pick (nil ref in the picker)", ""),
 "C05-m2": ("b05", "C05", "Shutdown handler prunes the ref from scRefList, which can become empty", "pool emptied, factory failing, RR BIND pick on the superseded picker (divide by zero)", ""),
 "C06-m1": ("b05", "C06", "sigChan := scRef.stateSignal hoisted out of the RR wait loop", "a waiting BIND whose SubConn reports a non-READY state change: busy-spins on the stale closed channel", "initially missed (the waiter still returns correctly); waiting picks must now be observed parked after every operation (C06.waiter-spins)"),
 "C06-m2": ("b05", "C06", "refresh() unlocks explicitly and forgets the NewSubConn error path", "the factory fails exactly when a refresh is triggered", ""),
 "C10-m1": ("b06", "C10", "monitoredConn.notify iterates a 'snapshot' of gme.mes (a map reference) after unlocking", "a MultiEndpoint-adding/removing update while a pool state change is in flight", ""),
 "C10-m2": ("b06", "C10", "atomic.StoreUint32(&scRef.deCalls, 0) became a plain store at refresh completion", "a refresh completing concurrently with a counted deadline-exceeded completion", ""),
 "C10-m3": ("b06", "C10", "getReadySubConnRef takes RLock but the fallback-creation path writes fallbackMap", "fallback on, keys bound to a non-READY SubConn, picks on two picker generations concurrently", ""),
 "C10-m4": ("b06", "C10", "me.endpoints[me.future] lookup moved in front of me.Lock() in the switching-delay timer callback", "SwitchingDelay > 0, a scheduled switch, timer firing concurrently with SetEndpoints", ""),
 "C12-m1": ("b07", "C12", "waitForStream checks the call's context before an already created stream", "successful first SendMsg, then cancel, then RecvMsg/Header", "reported through Header from the start; RecvMsg after cancel is now checked as well"),
 "C12-m2": ("b07", "C12", "unlock and broadcast deferred until the first underlying SendMsg has returned", "a first send that blocks plus a concurrent receiver", "initially missed; the gate scenario blocking-first-send (fake stream whose first SendMsg blocks) now reports it"),
 "C19-m1": ("b07", "C19", "'already checksummed' shortcut when the standard encoding starts with the field-2047/fixed32 tag", "a message whose encoding starts with an unknown fixed32 field 2047", ""),
 "C19-m2": ("b07", "C19", "early return 'if err != nil' became 'if bytes == nil'", "an inner-codec error that arrives together with a non-nil slice (invalid UTF-8, missing required field)", "initially missed (error inputs always came with nil output); the failing inner codec now also returns partial output and an invalid-UTF-8 message is marshalled by the real codec"),
 "C13-m1": ("b08", "C13", "'switch to t already scheduled' shortcut placed before the immediate-switch check", "current becomes known-unavailable while a delayed switch to the same target is pending", ""),
 "C13-m2": ("b08", "C13", "switching-delay timer guard e.status != available became == recovering", "switch target outright unavailable when the timer fires", ""),
 "C14-m1": ("b08", "C14", "'switch already scheduled' marker cleared only when the timer succeeds", "a delayed switch abandoned because the target went down, later the target is available again", ""),
 "C14-m2": ("b08", "C14", "recovery timer callback looks its endpoint up by id (zero lastChange matches a re-added endpoint)", "endpoint removed and re-added with a leftover timer", ""),
 "C15-m1": ("b09", "C15", "pickConn ignores whether the context carries a MultiEndpoint name at all", "a non-default MultiEndpoint named \"\" (legal)", "initially missed; the walks now also configure the empty-string name and distinguish 'no name in the context' from it"),
 "C15-m2": ("b09", "C15", "UpdateMultiEndpoints releases the write lock around dialFunc", "two concurrent updates mentioning the same not-yet-pooled endpoint: two open pools, one orphaned", "initially missed (updates were sequential); a quarter of the updates are now issued twice concurrently with slowed-down dials"),
 "C16-m1": ("b09", "C16", "the pending delayed switch stores the target endpoint object instead of its id (multiendpoint.go)", "switching delay > 0: an accepted update adds a higher-priority endpoint, a second accepted update removes it inside the delay; RPCs then nil-dereference", "initially missed by the C16 check (gme walks used no switching delay; the C13 and C14 checks reported it at once); the directed scenario delayed-switch-target-removed now reports it under C16"),
 "C16-m2": ("b09", "C16", "SetEndpoints for existing MultiEndpoints moved into the validation loop ahead of the dials", "an update rejected later by a dial failure", ""),
 "C11-m1": ("b10", "C11", "fieldByName caches field indices keyed by Type.String()+name", "distinct message types printing the same name (function-local types)", "initially missed (generated types are unnamed); hand-written same-named local types with different layouts are now probed in random order"),
 "C11-m2": ("b10", "C11", "strings.Title replaced by ToUpper(name[:1])+name[1:]", "an empty path segment reaching a struct (panic)", ""),
 "C17-m1": ("b10", "C17", "initializeConfig clones the supplied ApiConfig only when a default has to be filled in", "all three sizes non-zero, then the caller edits its object", ""),
 "C17-m2": ("b10", "C17", "config branch also taken when the pool is empty (gb.cfg == nil || len(scRefs) == 0)", "a later resolver update that finds the pool empty replaces / resets the config", "initially missed; a fifth of the pool observations now empty the pool and send a second update with another config first"),
 "C18-m1": ("b10", "C18", "backoff rewritten with integer arithmetic (d += (d+1)/2) that overflows", "max above ~2/3 of MaxInt64 ns", ""),
 "C18-m2": ("b10", "C18", "parseT4T7Latency uses fmt.Sscanf(prefix+\"%d\")", "a first entry that starts with digits but is malformed (12abc, 12.5, 1e3)", ""),
}

META3 = {
 "C01-m1": ("d01", "C01", "refresh take-over records the replacement as READY instead of inheriting the old state (no publish)", "old connection already left READY and no other channel READY (e.g. a pool of one): the most recently published picker keeps failing calls for K", "initially missed by the C01 check (the history stopped at the C04 rule 'missing publish' of the swap, owned by C04); C01/C08 histories now continue across it and the keyed-pick rule judges the next call (C01.home-ready:cur-tf-picker)"),
 "C01-m2": ("d01", "C01", "unbindSubConn only removes the binding if the key is bound to the SubConn the UNBIND ran on", "fallback on and the UNBIND served by a stand-in while the home is down", ""),
 "C08-m1": ("d01", "C08", "stand-in chosen from the READY list of the picker running the Pick, not from the current picker", "a call for K on a stale picker after home and another channel broke", ""),
 "C08-m2": ("d01", "C08", "remembered stand-in reused only while below the low watermark", "stand-in reaches the watermark while another READY channel is less busy", ""),
 "C02-m1": ("d02", "C02", "regeneratePicker skips READY channels whose ref is being refreshed", "another channel changes readiness while a refresh is in progress", ""),
 "C02-m2": ("d02", "C02", "scan loop in getLeastBusySubConnRef no longer updates the running minimum", "three or more channels with loads such as (2,0,1)", ""),
 "C03-m1": ("d02", "C03", "refresh-swap branch no longer deletes the replacement from refreshingScRefs", "a completed refresh followed by a connection loss and reconnect of that channel: RemoveSubConn of its live connection", ""),
 "C03-m2": ("d02", "C03", "initializeConfig clamps minSize to maxSize", "minSize > maxSize (or > 4 with maxSize unset)", ""),
 "C09-m1": ("d02", "C09", "the sigChan arm of the RR wait loop returns the ref immediately", "a non-READY state change of the assigned channel while a BIND waits", ""),
 "C09-m2": ("d02", "C09", "round-robin guard cmd == BIND became cmd != BOUND", "an UNBIND method under ROUND_ROBIN", ""),
 "C04-m1": ("d03", "C04", "picker regenerated only when READY-ness changed or the new aggregate is TRANSIENT_FAILURE", "aggregate TRANSIENT_FAILURE -> CONNECTING without READY change: the fail-fast picker is republished with CONNECTING", ""),
 "C04-m2": ("d03", "C04", "unknown-SubConn guard flattened to 'if !ok && log.V(FINE)'", "reports from removed or replaced connections at default verbosity", ""),
 "C07-m1": ("d03", "C07", "gotResp() also clears ref.refreshing", "a response during an in-flight refresh, then renewed unresponsiveness: a second replacement", ""),
 "C07-m2": ("d03", "C07", "the dl.After(now) clause dropped from the response classification", "a server-side DEADLINE_EXCEEDED (same text) before the client's deadline", ""),
 "C20-m1": ("d03", "C20", "gb.addrs = addrs moved into the two SubConn-creating branches", "a later update on a non-empty pool, then growth or a refresh", ""),
 "C20-m2": ("d03", "C20", "forwarding to in-flight replacements skips one whose old connection is no longer in the pool", "old connection shut down during the refresh, then a resolver update, then the replacement takes over", "initially missed (exact histories never shut a connection down while its replacement was pending); the macro shutdown-during-refresh now does, with the take-over semantics the repository's TestShutdownWhileRefreshing expects - it also exposed a remainder of defect D17 on the unchanged tree (fixed by ceec4df); patch.diff is the change re-applied to the repaired tree, patch.orig.diff the sub-agent's original"),
 "C05-m1": ("d04", "C05", "Shutdown case drops delete(gb.scStates, sc)", "Shutdown, a late READY report for the same SubConn, then a pick (nil ref in the picker)", ""),
 "C05-m2": ("d04", "C05", "fieldByName loses its IsNil check on a promoted field", "a request/reply whose key field is promoted through a nil embedded pointer", "initially missed by the C05 check (hostile requests had no embedded pointers; the C11 check covers the function itself); hostile requests and replies now include them"),
 "C05-m3": ("d04", "C05", "strings.Title replaced by ToUpper(name[:1])+name[1:]", "a BOUND/UNBIND method with an empty affinity_key or a locator like 'a.' / 'a..b'", "initially missed by the C05 check (all configured key paths were well-formed); hostile histories now request methods configured with empty path segments"),
 "C06-m1": ("d04", "C06", "early return for an ended context in getSubConnRoundRobin while gb.mu.RLock is held", "an RR BIND pick on a not-READY channel with a context already done", ""),
 "C06-m2": ("d04", "C06", "addSubConn returns true when the pool is already at max_size: enforceMinSize spins", "a configuration with min_size > max_size", "first run INCONCLUSIVE after 905 s: the spin makes no NewSubConn call, each spinning case cost the 60 s watchdog and left a goroutine burning a CPU until the batch timed out; a running operation is now declared stuck after 8 s and a batch stops after two stuck operations"),
 "C06-m3": ("d04", "C06", "bindSubConnRef takes ref.mu before gb.mu (lock order inversion)", "a BIND completion racing the READY report of the replacement of the same channel", ""),
 "C10-m1": ("d05", "C10", "regeneratePicker builds the new READY list in the backing array of the picker it replaces", "a Pick on a picker gRPC still holds racing the next state change", ""),
 "C10-m2": ("d05", "C10", "initStreamErr stored after releasing the stream mutex on the SendMsg error path", "first SendMsg fails creation while another goroutine of the call reads", ""),
 "C10-m3": ("d05", "C10", "NewMultiEndpoint's construction lock dropped", "a tiny RecoveryTimeout or many endpoints", ""),
 "C10-m4": ("d05", "C10", "pickConn releases gme.mu before the gme.pools lookup", "an RPC racing an UpdateMultiEndpoints that adds or removes a pool", ""),
 "C11-m1": ("d06", "C11", "locator split with strings.FieldsFunc: empty segments silently dropped", "'.key', 'key.', 'a..b'", ""),
 "C11-m2": ("d06", "C11", "reflect.Copy fast path for a repeated string field at the end of the path", "element type is a named string type ([]ID)", "initially missed (generated types only use predeclared types); hand-written messages with named string and slice types are now probed"),
 "C12-m1": ("d06", "C12", "SendMsg broadcasts only after a successful creation", "RecvMsg/Header parked when the first SendMsg fails to create the stream", ""),
 "C12-m2": ("d06", "C12", "Trailer() reuses the 'nothing happened yet' predicate and otherwise delegates to a nil stream", "creation failure followed by Trailer()", ""),
 "C13-m1": ("d07", "C13", "SetEndpoints stops the recovery timers of kept endpoints too", "the list is replaced while the current endpoint is inside its recovery window", ""),
 "C13-m2": ("d07", "C13", "empty-list check in SetEndpoints runs after the removal loop", "a rejected empty list wipes every endpoint; the next report or timer panics", "first run INCONCLUSIVE: the panic killed the child process and was attributed to C05; mesim now recovers panics of the code under test and reports them under the property being checked"),
 "C14-m1": ("d07", "C14", "delayed-switch callback compares priorities the wrong way for a recovering current", "pending switch, reorder so that current outranks the target, then current goes into recovery", ""),
 "C14-m2": ("d07", "C14", "setState no longer stops the pending recovery timer (relies on lastChange only)", "an unavailable and an available report at the same clock reading", "initially missed (the virtual clock advanced at least 1 ns per operation); one operation in eight now happens at the same clock reading as the previous one"),
 "C15-m1": ("d07", "C15", "obsolete pools are closed without stopMonitoring", "an update drops an endpoint", ""),
 "C15-m2": ("d07", "C15", "'never delete the default' guard with defaultName assigned at the end", "an update changes the default and drops the former default, then an RPC names the former default", "initially missed; contexts naming a MultiEndpoint that was configured earlier and removed are now part of every routing check"),
 "C16-m1": ("d07", "C16", "Close() continues past stopMonitoring when conn.Close() fails", "a pool's ClientConn already closed by its owner", "initially missed; in a third of the cases the harness now closes one dialled ClientConn itself before Close()"),
 "C16-m2": ("d07", "C16", "up-front empty-list validation removed (error surfaces after the dials)", "options with an empty endpoint list", ""),
 "C17-m1": ("d08", "C17", "ParseConfig uses DiscardUnknown", "JSON with an unknown or misspelled field", ""),
 "C17-m2": ("d08", "C17", "method table built from the caller's entries instead of the clone", "the caller mutates its config after the first update", ""),
 "C18-m1": ("d08", "C18", "prefix stripped with strings.TrimLeft (character set)", "a duration starting with 4 or 7", ""),
 "C18-m2": ("d08", "C18", "database regex matched against the instance flag", "valid instance with an invalid database", ""),
 "C19-m1": ("d08", "C19", "early return also when the standard encoding is empty", "a message that encodes to zero bytes", ""),
 "C19-m2": ("d08", "C19", "proto.DiscardUnknown(m) before encoding", "a message carrying unknown fields", ""),
}

META4 = {
 "C01-m1": ("e01", "C01", "Shutdown case also deletes every affinityMap entry pointing at the shut-down SubConn", "fallback disabled, a key whose home channel reports SHUTDOWN: routed like an unknown key instead of waiting", "initially missed (C01 histories never shut a pool connection down); they now do in 30% of the cases"),
 "C01-m2": ("e01", "C01", "BIND completion binds only the first key of the reply", "a BIND response carrying several keys (locator through a repeated field)", ""),
 "C08-m1": ("e01", "C08", "stand-in selection returns nil when every READY channel is at the watermark and the pool is below max_size", "saturated pool below maxSize, home down, no remembered stand-in", ""),
 "C08-m2": ("e01", "C08", "'recovered subconn' clean-up empties the whole fallbackMap", "an unrelated third channel turns READY while the home is still down", ""),
 "C02-m1": ("e02", "C02", "getReadySubConnRef looks in fallbackMap before affinityMap (stale entry after UNBIND)", "fallback on: home down, stand-in created, key unbound, home recovers; a later call with that unknown key is pinned", ""),
 "C02-m2": ("e02", "C02", "streamsIncr moved into the decision sites; the at-maxSize overflow return forgets it", "pool at maxSize with every READY channel at or above the watermark", ""),
 "C03-m1": ("e02", "C03", "a replacement reporting TRANSIENT_FAILURE is abandoned and removed", "the replacement's first connection attempt fails", ""),
 "C03-m2": ("e02", "C03", "'any channel idle or connecting' scan looks only at the most recently created channel", "newest channel READY, an older one reconnecting, READY channels saturated", ""),
 "C09-m1": ("e02", "C09", "a BIND whose context has already ended only peeks at the next slot (no ticket)", "sequence ok, cancelled, ok over three channels", ""),
 "C09-m2": ("e02", "C09", "fast path returns the assigned channel at once if it is in the picker's READY snapshot", "a BIND pick on a stale picker after the channel left READY", ""),
 "C04-m1": ("e03", "C04", "refresh completion no longer deletes the replacement from refreshingScRefs", "later non-READY reports of the now-pooled replacement are swallowed", ""),
 "C04-m2": ("e03", "C04", "the replacement's state entry is only set when the old connection is still known", "old connection shut down mid-refresh, replacement joins when READY, its reports count as unknown", "initially missed (only C20/C07 histories shut a connection down during its refresh); C04 histories now run the shutdown-during-refresh macro too"),
 "C07-m1": ("e03", "C07", "the takeover no longer resets deCalls", "after the doubled window one deadline-exceeded call refreshes again", ""),
 "C07-m2": ("e03", "C07", "break after the first re-mapped key in the affinityMap loop at takeover", "two or more keys bound to the refreshed channel", "initially attributed to C01 only (C01.home-ready after a refresh); keyed-pick / stream-count / stand-in violations on a refreshed channel are now reported as C07.takeover in a C07 run"),
 "C20-m1": ("e03", "C20", "addresses still forwarded to in-flight replacements but Connect() no longer called on them", "a resolver update while a refresh is in flight", "initially missed (a replacement's address list was only checked when it took over); every resolver update now checks addresses and Connect of replacements in flight"),
 "C20-m2": ("e03", "C20", "an empty address list after a non-empty one returns ErrBadResolverState before gb.addrs is updated", "a resolver update with an empty list on a non-empty pool", "initially missed (C20 histories had no empty updates); they now have them in 30% of the cases"),
 "C05-m1": ("e04", "C05", "waitForStream ends with 'return cs.ClientStream, cs.initStreamErr' (nil, nil after a cancelled context)", "RecvMsg/Header before the first SendMsg with the context cancelled: nil dereference", "initially missed by the C05 check (the stream wrapper was only exercised by C12); the stream engine is now also a stage of C05, where only its panics count"),
 "C05-m2": ("e04", "C05", "getLeastBusyReadySubConnRef starts from p.scRefs[0] of the current picker", "fallback on, key bound to a non-READY SubConn, current picker empty (CONNECTING), pick on a superseded picker", ""),
 "C05-m3": ("e04", "C05", "unbindSubConn lost its check that the bound SubConn is still in the pool", "UNBIND picked while READY, completed after that SubConn was reported SHUTDOWN", ""),
 "C06-m1": ("e04", "C06", "warning log on the addSubConn failure path of enforceMinSize calls getConnectionPoolSize() (re-lock)", "the factory fails while the pool is grown to min_size during a resolver update", "first run INCONCLUSIVE after 905 s (hundreds of histories each paid the 1.5 s deadlock confirmation until the batch timed out); a batch now stops after eight deadlocked histories"),
 "C06-m2": ("e04", "C06", "detectUnresponsive holds scRef.mu.RLock across gb.refresh() (lock order inversion)", "a deadline-exceeded completion racing the replacement of the same ref becoming READY", ""),
 "C06-m3": ("e04", "C06", "explicit unlocks in getAndIncrementSubConnRef forget the (nil, nil) exit", "a bound key whose SubConn is not READY with no fallback: the picker mutex stays locked", ""),
 "C10-m1": ("e05", "C10", "plain ++ on gb.rrRefId under the shared RLock", "two or more concurrent round-robin BIND picks", ""),
 "C10-m2": ("e05", "C10", "unresponsiveDetection flag recomputed in every UpdateClientConnState", "a later resolver update while Done callbacks read the flag lock-free", ""),
 "C10-m3": ("e05", "C10", "scRef.subConn = sc moved out of the scRef.mu critical section at refresh completion", "a replacement becoming READY while another goroutine is inside Pick", ""),
 "C10-m4": ("e05", "C10", "GCPMultiEndpoint.Close() no longer takes gme.mu", "Close concurrent with an UpdateMultiEndpoints that adds or removes a pool", "initially missed (Close only overlapped RPCs); half of the gme race runs now call Close while reconfigurations are still being applied"),
 "C11-m1": ("e06", "C11", "pointer/interface dereference happens after the end-of-path string check", "a path ending on a *string, a []*string element or an interface holding a string", ""),
 "C11-m2": ("e06", "C11", "generic 'nil field' check makes a nil slice an error", "a nil (not merely empty) repeated field", ""),
 "C12-m1": ("e06", "C12", "SendMsg decides from an initStarted flag set before the creation attempt", "the streamer fails on the first SendMsg; every later SendMsg dereferences nil", ""),
 "C12-m2": ("e06", "C12", "stream (re)created while a firstSent flag is false, set only after a successful underlying send", "creation succeeds but the first underlying send returns an error; the next SendMsg creates a second stream", "initially missed (the fake stream's sends never failed); scenarios where the first send on the new stream returns io.EOF were added"),
 "C13-m1": ("e07", "C13", "SetEndpoints hands a removed current over to the list's first endpoint when that endpoint is already tracked, before re-evaluating", "recovery > 0, current removed, kept recovering first endpoint, lower-priority endpoint available", ""),
 "C14-m1": ("e07", "C14", "recovery-timer callback decides it is outdated by e.status != recovering instead of lastChange", "a timer that already fired and waits for the lock, overtaken by an available and an unavailable report", ""),
 "C15-m1": ("e07", "C15", "pickConn releases gme.mu after choosing the MultiEndpoint and looks the pool up in a copied map header outside the lock", "an UpdateMultiEndpoints overlapping the pick and removing that endpoint: nil dereference / closed pool", "initially missed by the C15 check (RPCs never overlapped an update; the C10 check reported the race at once); a third of the updates now run with RPCs in flight and a delay at pickConn's instrumented yield sites"),
 "C16-m1": ("e07", "C16", "dial-failure rollback iterates validPools instead of addedPools", "a rejected update mentioning an existing endpoint plus one whose dial fails: the pre-existing pool is closed", ""),
 "C17-m1": ("e08", "C17", "initializeConfig raises maxSize to minSize when it is smaller", "a config with minSize above maxSize (or above the default 4)", "initially missed (generated configs always had minSize <= maxSize); a tenth of them now have minSize 5-6 with maxSize 0-3"),
 "C17-m2": ("e08", "C17", "method-table loop skips entries whose affinity key is empty instead of entries without affinity section", "an entry with an affinity section but an empty key", ""),
 "C18-m1": ("e08", "C18", "instanceURI/databaseURI rebuilt with path.Join (cleans the result)", "flag-valid values '', '.', '..'", ""),
 "C18-m2": ("e08", "C18", "overflow check of parseT4T7Latency reduced to a sign-flip test", "huge values whose product wraps to the same sign (dur=18446744073710)", "initially missed (the overflow inputs all flipped the sign); any 63-bit count is now generated"),
 "C19-m1": ("e08", "C19", "CRC computed over the first encoding, message re-encoded behind the checksum field", "a message with a map field of two or more entries (random entry order)", ""),
 "C19-m2": ("e08", "C19", "Unmarshal rewritten with proto.NewBuffer(data).Unmarshal(m), which merges", "decoding into a message that already holds data", "initially missed (decoding always used a fresh target); the output is now also decoded into a populated message of the same type"),
}

def main():
    kept, skipped = [], []
    items = [("r1-" + k, k, v) for k, v in META.items()] + [("r2-" + k, k, v) for k, v in META2.items()] + [("r3-" + k, k, v) for k, v in META3.items()] + [("r4-" + k, k, v) for k, v in META4.items()]
    for mid, dname, (agent, prop, change, needs, note) in sorted(items):
        d = os.path.join(SRC, agent, dname)
        conf = os.path.join(d, "confirm.txt")
        res = os.path.join(d, "vcheck_result.json")
        if not (os.path.exists(conf) and os.path.exists(res)):
            skipped.append((mid, "no confirmation or check result yet")); continue
        ctext = open(conf).read()
        ok = "demo without change: rc=0" in ctext and "existing tests with change: rc=0" in ctext and "demo with change: rc=0" not in ctext
        if not ok:
            skipped.append((mid, "not confirmed: " + " | ".join(l for l in ctext.splitlines() if not l.startswith("    ")))); continue
        r = json.load(open(res))
        dst = os.path.join("/verif/seeded", mid)
        os.makedirs(dst, exist_ok=True)
        for f in ["patch.diff", "patch.orig.diff", "README.md"] + [os.path.basename(x) for x in glob.glob(os.path.join(d, "*_test.go"))]:
            if os.path.exists(os.path.join(d, f)):
                shutil.copy(os.path.join(d, f), os.path.join(dst, f))
        shutil.copy(conf, os.path.join(dst, "confirm.txt"))
        meta = dict(id=mid, property=prop, change=change, needs_to_manifest=needs,
                    source="independent sub-agent given only the property text and a scratch worktree of /repo",
                    confirmed_by="tools/confirm_mut.sh in a scratch worktree of /repo HEAD: demonstration passes without the change, fails with it, the repository's own tests pass with it (see confirm.txt)",
                    checks_run={p: v for p, v in r.items()},
                    caught_by=sorted(p for p, v in r.items() if v["verdict"] == "CAUGHT"),
                    detection_note=note)
        json.dump(meta, open(os.path.join(dst, "meta.json"), "w"), indent=1)
        kept.append(mid)
    print("kept", len(kept), kept)
    for m, why in skipped:
        print("skipped", m, why)

if __name__ == "__main__":
    main()
