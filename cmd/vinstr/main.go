// vinstr: build-time, line-preserving source instrumenter (std library only).
//
//	vinstr [-clock] [-yield] [-ticker] -o out.go in.go
//
// -clock : every selector expression time.Now becomes verifNow (same length,
//
//	so columns are preserved too); "var _ = time.Now" is appended so the
//	import stays used.
//
// -yield : verifYield("<func>/<callee>#<n>") is inserted (on the same line)
//
//	before every statement-level X.Lock()/X.RLock() call, after every
//	statement-level (non-deferred) X.Unlock()/X.RUnlock() call, before
//	statement-level calls of the form p.gb.F(...), and before
//	statement-level X.Wait()/X.Broadcast() calls.
//
// The tool is purely syntactic: any file that parses can be instrumented.
// It prints the list of yield sites (one per line) on stdout.
package main

import (
	"flag"
	"fmt"
	"go/ast"
	"go/parser"
	"go/token"
	"os"
	"sort"
)

type ins struct {
	off  int
	text string
	// replace n bytes (0 for pure insertion)
	n int
}

func main() {
	clock := flag.Bool("clock", false, "rewrite time.Now -> verifNow")
	yield := flag.Bool("yield", false, "insert verifYield sites")
	out := flag.String("o", "", "output file")
	flag.Parse()
	if flag.NArg() != 1 || *out == "" {
		fmt.Fprintln(os.Stderr, "usage: vinstr [-clock] [-yield] -o out.go in.go")
		os.Exit(2)
	}
	src, err := os.ReadFile(flag.Arg(0))
	if err != nil {
		fmt.Fprintln(os.Stderr, err)
		os.Exit(2)
	}
	fset := token.NewFileSet()
	f, err := parser.ParseFile(fset, flag.Arg(0), src, parser.ParseComments)
	if err != nil {
		fmt.Fprintln(os.Stderr, err)
		os.Exit(2)
	}
	var edits []ins
	clockHits := 0
	if *clock {
		ast.Inspect(f, func(n ast.Node) bool {
			se, ok := n.(*ast.SelectorExpr)
			if !ok {
				return true
			}
			id, ok := se.X.(*ast.Ident)
			if ok && id.Name == "time" && se.Sel.Name == "Now" && id.Obj == nil {
				off := fset.Position(se.Pos()).Offset
				edits = append(edits, ins{off: off, text: "verifNow", n: len("time.Now")})
				clockHits++
			}
			return true
		})
	}
	var sites []string
	if *yield {
		for _, d := range f.Decls {
			fd, ok := d.(*ast.FuncDecl)
			if !ok || fd.Body == nil {
				continue
			}
			fname := fd.Name.Name
			counter := map[string]int{}
			site := func(callee string) string {
				counter[callee]++
				s := fmt.Sprintf("%s/%s#%d", fname, callee, counter[callee])
				sites = append(sites, s)
				return s
			}
			doList := func(list []ast.Stmt) {
				for _, s := range list {
					if ls, ok := s.(*ast.LabeledStmt); ok {
						s = ls.Stmt
					}
					es, ok := s.(*ast.ExprStmt)
					if !ok {
						continue
					}
					ce, ok := es.X.(*ast.CallExpr)
					if !ok {
						continue
					}
					se, ok := ce.Fun.(*ast.SelectorExpr)
					if !ok {
						continue
					}
					name := se.Sel.Name
					start := fset.Position(es.Pos()).Offset
					end := fset.Position(es.End()).Offset
					switch name {
					case "Lock", "RLock", "Wait", "Broadcast", "Signal":
						if len(ce.Args) == 0 {
							edits = append(edits, ins{off: start, text: fmt.Sprintf("verifYield(%q); ", site(name))})
						}
					case "Unlock", "RUnlock":
						if len(ce.Args) == 0 {
							edits = append(edits, ins{off: end, text: fmt.Sprintf("; verifYield(%q)", site(name))})
						}
					default:
						// p.gb.F(...)
						if inner, ok := se.X.(*ast.SelectorExpr); ok && inner.Sel.Name == "gb" {
							edits = append(edits, ins{off: start, text: fmt.Sprintf("verifYield(%q); ", site("gb."+name))})
						}
					}
				}
			}
			ast.Inspect(fd.Body, func(n ast.Node) bool {
				switch x := n.(type) {
				case *ast.BlockStmt:
					doList(x.List)
				case *ast.CaseClause:
					doList(x.Body)
				case *ast.CommClause:
					doList(x.Body)
				}
				return true
			})
		}
	}
	sort.SliceStable(edits, func(i, j int) bool { return edits[i].off < edits[j].off })
	var outb []byte
	pos := 0
	for _, e := range edits {
		if e.off < pos {
			continue
		}
		outb = append(outb, src[pos:e.off]...)
		outb = append(outb, e.text...)
		pos = e.off + e.n
	}
	outb = append(outb, src[pos:]...)
	if clockHits > 0 {
		outb = append(outb, []byte("\nvar _ = time.Now\n")...)
	}
	if err := os.WriteFile(*out, outb, 0o644); err != nil {
		fmt.Fprintln(os.Stderr, err)
		os.Exit(2)
	}
	for _, s := range sites {
		fmt.Println(s)
	}
	fmt.Fprintf(os.Stderr, "vinstr: %s: %d clock rewrites, %d yield sites\n", flag.Arg(0), clockHits, len(sites))
}
