module verif/cmd

go 1.21
