"""Property -> stages -> engines table used by vcheck."""

GRPCGCP_INSTR_CLOCK = {"gcp_balancer.go": ["-clock"], "gcp_picker.go": ["-clock"]}
GRPCGCP_INSTR_YIELD = {"gcp_balancer.go": ["-yield"], "gcp_picker.go": ["-yield"], "gcp_interceptor.go": ["-yield"],
                       "gcp_multiendpoint.go": ["-yield"]}

ENGINES = {
    "poolsim": dict(module="grpcgcp", pkg=".", pkgname="grpcgcp", pkgmarker="grpcgcp.", harness="grpcgcp",
                    files=["poolsim_test.go"], instrument=GRPCGCP_INSTR_CLOCK),
    "merace": dict(module="grpcgcp", pkg="multiendpoint", pkgname="multiendpoint", pkgmarker="multiendpoint.", harness="multiendpoint",
                   files=["merace_test.go"], kind="concurrent MultiEndpoint workload with real timers (race detector)"),
    "gmerace": dict(module="grpcgcp", pkg=".", pkgname="grpcgcp", pkgmarker="grpcgcp.", harness="grpcgcp",
                    files=["gme_test.go"], instrument={"gcp_multiendpoint.go": ["-yield"]}, kind="concurrent GCPMultiEndpoint workload over bufconn (race detector)"),
    "streamrace": dict(module="grpcgcp", pkg=".", pkgname="grpcgcp", pkgmarker="grpcgcp.", harness="grpcgcp",
                       files=["stream_test.go", "poolsim_test.go"], instrument={"gcp_interceptor.go": ["-yield"], "gcp_balancer.go": ["-clock"], "gcp_picker.go": ["-clock"]}, kind="concurrent stream wrapper workload (race detector)"),
    "poollin": dict(module="grpcgcp", pkg=".", pkgname="grpcgcp", pkgmarker="grpcgcp.", harness="grpcgcp",
                    files=["lin_test.go", "stress_test.go", "poolsim_test.go"], instrument={"gcp_balancer.go": ["-yield"], "gcp_picker.go": ["-yield"]},
                    require=["github.com/anishathalye/porcupine v1.3.0"],
                    kind="recorded client-boundary histories of binds/unbinds/keyed picks checked for linearizability with porcupine"),
    "mesim": dict(module="grpcgcp", pkg="multiendpoint", pkgname="multiendpoint", pkgmarker="multiendpoint.", harness="multiendpoint",
                  files=["mesim_test.go"], kind="sequential virtual-clock simulation of MultiEndpoint vs reference state machine"),
    "mestress": dict(module="grpcgcp", pkg="multiendpoint", pkgname="multiendpoint", pkgmarker="multiendpoint.", harness="multiendpoint",
                     files=["mestress_test.go"], kind="concurrent MultiEndpoint workload with real millisecond timers: one reporter per endpoint aiming reports at timer expiry, readers, list re-ordering; convergence at quiescence"),
    "keys": dict(module="grpcgcp", pkg=".", pkgname="grpcgcp", pkgmarker="grpcgcp.", harness="grpcgcp",
                 files=["keys_test.go"], kind="generated Go values x locators vs independent reference traversal"),
    "prober": dict(module="spanner_prober", pkg="prober", pkgname="prober", pkgmarker="prober.", harness="prober",
                   kind="generated inputs vs arithmetic / reference parser (package spanner_prober/prober)"),
    "flags": dict(module="spanner_prober", pkg=".", pkgname="main", pkgmarker="main.", harness="probermain",
                  kind="generated flag values through validateFlags (package main of spanner_prober)"),
    "codec": dict(module="e2e-checksum", pkg=".", pkgname="main", pkgmarker="main.", harness="codec",
                  kind="generated protobuf messages vs independent wire-format + CRC32C reference"),
    "cfg": dict(module="grpcgcp", pkg=".", pkgname="grpcgcp", pkgmarker="grpcgcp.", harness="grpcgcp",
                files=["cfg_test.go", "poolsim_test.go"], instrument=GRPCGCP_INSTR_CLOCK,
                kind="generated ApiConfig values / JSON texts: differential vs protojson, behavioural observation of the effective config, immutability snapshots"),
    "stream": dict(module="grpcgcp", pkg=".", pkgname="grpcgcp", pkgmarker="grpcgcp.", harness="grpcgcp",
                   files=["stream_test.go", "poolsim_test.go"], instrument=dict(GRPCGCP_INSTR_CLOCK, **{"gcp_interceptor.go": ["-yield"]}),
                   kind="fake Streamer/ClientStream event log + gate-directed scenario programs, ordering monitor"),
    "gme": dict(module="grpcgcp", pkg=".", pkgname="grpcgcp", pkgmarker="grpcgcp.", harness="grpcgcp",
                files=["gme_test.go"], instrument={"gcp_multiendpoint.go": ["-yield"]}, kind="GCPMultiEndpoint over real gRPC and in-process bufconn servers: routing observed at the servers vs model, dial log, ClientConn states, goroutine profile"),
    "stress": dict(module="grpcgcp", pkg=".", pkgname="grpcgcp", pkgmarker="grpcgcp.", harness="grpcgcp",
                   files=["stress_test.go", "poolsim_test.go"], instrument={"gcp_balancer.go": ["-yield"], "gcp_picker.go": ["-yield"]},
                   kind="concurrent driver: serialized callbacks + many pick/complete goroutines, yield-site schedule perturbation, gates; quiescent invariants"),
}

POOLSIM_ESSENTIAL = {
    "C01": ["C01.home-ready-cur", "C01.home-ready:after-refresh", "C01.home-down-wait", "C01.bind", "C01.unbind",
            "C01.rebind-ignored", "C01.failed-bind-unbind", "C01.macro-rebind-complete"],
    "C02": ["C02.least-loaded-multi", "C02.at-max", "C02.count", "C02.quiescent-zero", "C02.empty-snap", "C02.empty-reply-key"],
    "C03": ["C03.initial", "C03.growth-attempt", "C03.growth-blocked-by-connecting", "C03.max", "C02.at-max", "C03.filled-to-high-watermark"],
    "C04": ["C04.aggregate", "C04.publish", "C04.publish-tf-boundary", "C04.ignored-report", "C04.tf-picker"],
    "C05": ["C05.hostile-case", "C05.malformed-handled", "C05.before-config"],
    "C06": ["C06.lock-free-after-op", "C06.hard-state", "C09.rr-wait", "C08.place-saturated", "C06.waiter-parked"],
    "C07": ["C07.rule", "C07.rule-refresh", "C07.swap", "C07.window-boundary", "C07.window-doubled",
            "C07.started-before-last-response", "C07.disabled", "C07.extreme-window", "C07.saturated-window", "C07.timeout-while-old-connection-gone"],
    "C08": ["C08.fallback", "C08.place", "C08.sticky", "C08.place-saturated"],
    "C09": ["C09.successor", "C09.rr-wait", "C09.waiter-released", "C09.ctx-end", "C09.cursor-near-2^31", "C09.big-pool"],
    "C20": ["C20.addr", "C20.replacement-addr", "C20.new-addr", "C20.resolver-error", "C20.resolver-error-before-first-update"],
}


def poolsim_stage():
    return dict(name="poolsim", engine="poolsim", test="TestVerifPoolSim",
                batches=dict(quick=8, thorough=16), essential=POOLSIM_ESSENTIAL,
                timeout=dict(quick=900, thorough=7200))


POOL_ASSUME = [
    "gRPC is replaced below the balancer API by a fake ClientConn/SubConn that follows gRPC 1.56's calling discipline (NewSubConn fails for an empty address list)",
    "sequential histories: one operation at a time (concurrency is covered by the poolstress/race stages)",
    "time is virtual: time.Now in gcp_balancer.go/gcp_picker.go is rewritten to a harness clock at build time",
]

PROPS = {}
for pid, rule in [
    ("C01", "seeded random pool histories (config x ops); non-trivial = a keyed pick on a bound key or a rebind/unbind was checked; distinct = hash of the op log"),
    ("C02", "seeded random pool histories; non-trivial = an unkeyed pick was checked against a snapshot of >=2 channels or at maxSize; distinct = hash of the op log"),
    ("C03", "seeded random pool histories; non-trivial = a saturated-pool growth decision or a pool re-creation was checked; distinct = hash of the op log"),
    ("C04", "seeded random state-report fault sequences; non-trivial = a report for a pool connection was checked against the publish rule after the first publication; distinct = hash of the op log"),
    ("C05", "seeded hostile histories (malformed requests, arbitrary reports, factory failures, stale pickers); non-trivial = >=10 hostile ops ran under the panic monitor; distinct = hash of the op log"),
    ("C06", "seeded histories incl. hard states (empty resolve, failing factory, emptied pool, saturated fallback, RR waiters); non-trivial = a hard state was driven under the deadlock/spin/lock monitors; distinct = hash of the op log"),
    ("C07", "seeded timed histories under a virtual clock; non-trivial = the model predicted a refresh, a swap completed, or a completion landed within 1ns of the window boundary; distinct = hash of the op log"),
    ("C08", "seeded histories with fallback enabled; non-trivial = a keyed pick with the home channel down was checked on the current picker; distinct = hash of the op log"),
    ("C09", "seeded histories under ROUND_ROBIN; non-trivial = a successor check or a waiting BIND pick occurred; distinct = hash of the op log"),
    ("C20", "seeded histories interleaving resolver updates with growth and refreshes; non-trivial = a replacement/growth connection's address list or a resolver error was checked; distinct = hash of the op log"),
]:
    PROPS[pid] = dict(level="exploration", rule=rule, assumptions=POOL_ASSUME, stages=[poolsim_stage()])

ME_ESSENTIAL = {
    "C13": ["C13.membership", "C13.unavail-current", "C13.none-available-unchanged", "C13.removed-first", "C13.exact",
            "C13.empty-rejected", "C13.current-removed", "C13.unknown-endpoint-report", "C13.duplicate-list"],
    "C14": ["C14.recovering-stays", "C14.no-switch-in-call", "C14.no-downgrade", "C14.convergence", "C14.timer-fired",
            "C14.simultaneous-timers", "C14.late-callback", "C14.avail-in-window", "C14.repeat-unavail-in-window", "C14.sub-millisecond-config"],
}
ME_ASSUME = ["time is virtual through the package's own timeNow/timeAfterFunc variables; one goroutine; timer callbacks run as separate steps (simultaneous ones in seeded-shuffled order, optionally late)",
             "endpoint lists with a repeated entry are generated too, but after such a list was accepted only membership and totality are judged (the statements do not say which occurrence gives the priority)",
             "mestress stage: real clock, recovery timeout 0.3-2 ms, switching delay 0-1.7 ms; convergence is polled for up to 5 s after the inputs stopped (bounded-progress restatement; the bound is three orders of magnitude above the timers)"]
for pid, rule in [
    ("C13", "seeded random histories of availability reports / list replacements / clock advances over 8 (recovery,delay) configurations; non-trivial = the 'current unavailable while another is available' rule, the exact rule (delay 0) or a removal of the current endpoint was evaluated; distinct = hash of the op log"),
    ("C14", "seeded random histories as for C13 with late timer callbacks and shuffled simultaneous timers; non-trivial = a timer fired, a better endpoint became available under a switching delay, or a report arrived inside a recovery window; distinct = hash of the op log"),
]:
    PROPS[pid] = dict(level="exploration", rule=rule, assumptions=ME_ASSUME,
                      stages=[dict(name="mesim", engine="mesim", test="TestVerifME", batches=dict(quick=8, thorough=16), crash_props=["C13", "C14"],
                                   essential=ME_ESSENTIAL, timeout=dict(quick=900, thorough=7200)),
                              dict(name="mesim-exhaustive", engine="mesim", test="TestVerifMEExhaustive", batches=dict(quick=8, thorough=16),
                                   essential={"C13": ["C13.exhaustive-sequences"], "C14": ["C14.exhaustive-sequences"]}, timeout=dict(quick=900, thorough=7200))])
    PROPS[pid]["stages"].append(dict(name="mestress", engine="mestress", test="TestVerifMEStress", batches=dict(quick=8, thorough=16), crash_props=["C13", "C14"],
                                     essential={"C13": ["C13.stress-membership"], "C14": ["C14.stress-convergence", "C14.stress-reports", "C14.stress-current-reads"]},
                                     timeout=dict(quick=900, thorough=7200)))
    PROPS[pid]["rule"] += "; mestress stage: concurrent executions with real timers (distinct = configuration and run index)"
    PROPS[pid]["rule"] += "; mesim-exhaustive stage: every op sequence of length 3 (quick) / 5 (thorough) over an alphabet of 6 availability reports, 6 list replacements and up to 5 clock advances on 3 endpoints, for 6 (recovery,delay) configurations (bounded-exhaustive; every rule evaluated after every step)"

PROPS["C11"] = dict(level="exploration",
    rule="seeded random Go types (reflect.StructOf: strings, ints, bools, []byte, nested structs, pointers, slices, interfaces, maps, arrays, embedded structs/pointers, nil at every pointer/slice position) x locators (valid walks, missing/extra/empty segments, wrong case, non-identifiers) plus generated pb.ApiConfig messages; non-trivial = the reference gives a definite answer (exact keys or must-be-error); distinct = hash of (value description, locator)",
    assumptions=["the reference traversal is written from the statement over the generator's own value tree (not reflect)",
                 "shapes the statement does not define (pointer-to-pointer, interface holding a pointer, maps, arrays, repeated-of-repeated, promoted fields of embedded structs, non-identifier segments) are checked for totality only"],
    stages=[dict(name="keys", engine="keys", test="TestVerifKeys", batches=dict(quick=8, thorough=16),
                 essential={"C11": ["C11.total", "C11.exact-keys", "C11.fan-out", "C11.empty-repeated", "C11.error-expected", "C11.ambiguous-shape-total", "C11.proto-message", "C11.same-name-types", "C11.named-kinds", "C11.repeated-call", "C11.same-object-after-change", "C11.bytes-field-never-a-key"]},
                 timeout=dict(quick=900, thorough=7200))])

PROPS["C18"] = dict(level="exploration",
    rule="seeded inputs: (base,max,retries) triples in a realistic and an extreme stratum; header/trailer metadata pairs from a grammar; payload sizes; flag sets of arbitrary strings/numbers pushed through validateFlags, the accepted ones re-checked against the resource-name builders, ParseProbeType and probeInterval; non-trivial = backoff strictly between base and max / a GFE entry the reference parses / an accepted flag set; distinct = hash of the input",
    assumptions=["flag values are written into the flag variables directly (flag.Parse is not involved)",
                 "the accepted flag sets found in package main are replayed in package prober through a file in the work directory"],
    stages=[dict(name="flags", engine="flags", test="TestVerifFlags", batches=dict(quick=4, thorough=16),
                 essential={"C18": ["C18.validate-flags", "C18.flags-accepted", "C18.flags-rejected"]}, timeout=dict(quick=900, thorough=7200)),
            dict(name="prober", engine="prober", test="TestVerifProber", batches=dict(quick=4, thorough=16),
                 essential={"C18": ["C18.backoff:realistic", "C18.backoff:extreme-arith", "C18.gfe-parse", "C18.gfe-header-preferred", "C18.gfe-trailer",
                                    "C18.gfe-error-expected", "C18.payload", "C18.resource-name", "C18.probe-interval", "C18.probe-interval:extreme", "C18.probe-type"]},
                 timeout=dict(quick=900, thorough=7200))])
PROPS["C19"] = dict(level="exploration",
    rule="seeded protobuf messages (Empty, Struct/Value/ListValue recursive, FileDescriptorProto, Any, wrappers, up to 100kB strings, injected unknown fields incl. field 2047) through myCodec.Marshal with a recording inner codec; non-trivial = a successfully marshalled message compared byte-for-byte with the reference and decoded twice; distinct = (kind, crc, payload length)",
    assumptions=["reference wire format: protowire.AppendTag(2047, Fixed32Type) + little-endian crc32.Castagnoli of the exact bytes the inner codec returned for this call",
                 "equality of the decoded message is modulo the prepended unknown field 2047"],
    stages=[dict(name="codec", engine="codec", test="TestVerifCodec", batches=dict(quick=4, thorough=16),
                 essential={"C19": ["C19.marshal", "C19.decode:codec", "C19.decode:proto", "C19.error-pass-through", "C19.earlier-output-intact", "C19.decode-into-used-target", "C19.remarshal-modified", "C19.memoising-inner-codec"]}, timeout=dict(quick=900, thorough=7200))])

PROPS["C17"] = dict(level="exploration",
    rule="seeded pb.ApiConfig values (zero values, nil sub-messages, up to 5 method entries with overlapping names, nil entries) and JSON texts (5 protojson renderings + mutations: unknown field, wrong type, truncation, wrong case, duplicates); non-trivial = a config driven through the whole pool observation (initial size, watermark, maxSize, per-method probes) or a parser differential or a GCPMultiEndpoint aliasing check completed; distinct = hash of the config text and variant",
    assumptions=["method names listed more than once across entries are excluded from the mapping check", "the fake ClientConn of poolsim stands in for gRPC",
                 "GCPMultiEndpoint pools are dialled with a dialer that always fails (no network is needed for the configuration checks)"],
    stages=[dict(name="cfg", engine="cfg", test="TestVerifCfg", batches=dict(quick=8, thorough=16),
                 essential={"C17": ["C17.parse-accept", "C17.parse-reject", "C17.round-trip", "C17.initial-size", "C17.second-update", "C17.caller-mutates", "C17.caller-object-unchanged",
                                    "C17.effective-config-wb", "C17.method-mapping", "C17.method-key-path", "C17.method-bind", "C17.watermark", "C17.max-size", "C17.gme-config-copy", "C17.gme-update", "C17.update-on-emptied-pool", "C17.edge-values", "C17.method-name-with-whitespace"]},
                 timeout=dict(quick=900, thorough=7200))])

PROPS["C12"] = dict(level="exploration",
    rule="enumerated scenario programs (receiver first or not x creation ok/err/err-then-ok x cancel point x bystander call and point x sends x receives x late receive; plus 'no SendMsg ever') each run with gates holding the streamer inside creation, repeated per tier; seeded unary interceptor calls; non-trivial = a creation was gated, a receive was observed parked before the first send, a bystander call ran before the first send, or a unary call was checked; distinct = scenario text",
    assumptions=["the fake streamer fails with the context's error when the call's context has ended, as grpc.NewStream does",
                 "blocking is decided from goroutine states (sync.Cond.Wait / sync.Mutex.Lock) sampled by the harness"],
    stages=[dict(name="stream", engine="stream", test="TestVerifStream", batches=dict(quick=8, thorough=16),
                 essential={"C12": ["C12.not-created-at-construction", "C12.creation-gated", "C12.recv-before-send", "C12.recv-waits-during-creation", "C12.recv-released",
                                    "C12.first-message-visible", "C12.retry-message-visible", "C12.failed-creation-returns-typed-nil", "C12.late-send-after-cancel-reaches-stream", "C12.after-end-of-stream", "C12.sends-in-order", "C12.recv-delegated", "C12.recv-gets-creation-error", "C12.late-recv-reaches-stream",
                                    "C12.recv-returns-on-context-end", "C12.bystander:before-send", "C12.bystander-delegates", "C12.unary-transparent", "C12.unary-nested-context", "C12.recv-released-while-send-blocks", "C12.late-recv-after-cancel-reaches-stream", "C12.first-send-error-no-second-stream"]},
                 timeout=dict(quick=900, thorough=7200))])

GME_ASSUME = ["real gRPC 1.56 client stack over in-process bufconn listeners; outage = dialer refuses + server stopped; reconnect backoff 5-20ms",
              "bounded time is restated: once every pool's GetState() has matched the injected up/down pattern for 100ms, routing must match the model within 10s; pools that never settle make the step inconclusive",
              "the 'reflects connectivity when the call returns' rule is evaluated only if no outage/recovery was injected since the last successful settle"]
PROPS["C15"] = dict(level="exploration",
    rule="seeded walks of 20 ops (valid reconfigurations of 1-3 named MultiEndpoints over 5 shared endpoints, endpoint outages/recoveries, settle+routed RPCs unary and streaming for no-name/known/unknown contexts); non-trivial = every walk (each performs routed RPC checks and pool-set checks); distinct = hash of the op log",
    assumptions=GME_ASSUME,
    stages=[dict(name="gme", engine="gme", test="TestVerifGME", batches=dict(quick=8, thorough=16), crash_props=["C15", "C16"],
                 essential={"C15": ["C15.route", "C15.route:no-name", "C15.route:unknown-name", "C15.route:known", "C15.route-stream", "C15.pools", "C15.immediate", "C15.no-redial", "C15.outage", "C15.recovery", "C15.concurrent-updates", "C15.route:removed-name", "C15.rpcs-during-update", "C15.flip-during-rejected-update"]},
                 timeout=dict(quick=1200, thorough=7200))])
PROPS["C16"] = dict(level="fault_enumeration",
    rule="enumerated fault kinds {default missing, empty list for an existing ME, empty list for a new ME, dial failure at the 1st/2nd/3rd dial, valid} applied in seeded sequences of 1-4 updates on top of random legitimate changes (Go map order varies per repetition), and failed constructions {dial failure at dial 1/2, default missing, empty list}; non-trivial = every case (each ends with Close() and the leak check); distinct = hash of the op log incl. the dial order actually taken",
    assumptions=GME_ASSUME + ["client-side goroutines are recognised by frames of monitoredConn.monitor, grpc.addrConn/ClientConn/ccBalancerWrapper/ccResolverWrapper, transport.http2Client"],
    stages=[dict(name="gme", engine="gme", test="TestVerifGME", batches=dict(quick=8, thorough=16), crash_props=["C15", "C16"],
                 essential={"C16": ["C16.rejected", "C16.routing-unchanged", "C16.update:default-missing", "C16.update:default-removed", "C16.update:dup-list", "C16.invalid-update-drops-me", "C16.update:existing-empty", "C16.update:new-empty", "C16.update:dial-fail", "C16.failed-construction", "C16.close", "C16.no-goroutine-left", "C16.accepted-update", "C16.redial-after-rollback", "C16.delayed-switch-target-removed", "C16.owner-closed-conn"]},
                 timeout=dict(quick=1200, thorough=7200))])

PROPS["C10"] = dict(level="exploration",
    rule="race-instrumented executions of 4 workloads (balancer driven as gRPC does x 6 feature configurations; GCPMultiEndpoint RPCs || updates || outages; MultiEndpoint reports || list updates || Current with real timers; stream wrapper sender || receiver || bystanders), each with seeded yield-site schedule perturbation; non-trivial = every execution (its op counts and the overlap pairs actually observed are in the evidence); distinct = (workload, configuration, run index)",
    assumptions=["the Go race detector only reports accesses that actually happened in an execution; harness state is synchronised only at the boundary and verifYield adds no happens-before edges",
                 "reports whose two stacks contain no repo frame make the run inconclusive, never a verdict"],
    stages=[dict(name="race-balancer", engine="stress", test="TestVerifRaceBalancer", race=True, gomaxprocs=[16, 4, 16, 2, 16, 8, 16], batches=dict(quick=6, thorough=18),
                 essential={"C10": ["C10.picks", "C10.placed", "C10.swaps-completed", "C10.overlap:callback||pick", "C10.overlap:callback||done", "C10.overlap:pick||done", "C10.overlap:done||done", "C10.overlap:pick||pick"]},
                 timeout=dict(quick=900, thorough=7200), crash_props=["C10"]),
            dict(name="race-gme", engine="gmerace", test="TestVerifRaceGME", race=True, batches=dict(quick=3, thorough=12),
                 essential={"C10": ["C10.gme-rpcs-ok", "C10.gme-updates", "C10.gme-outages", "C10.gme-config-reads"]},
                 timeout=dict(quick=900, thorough=7200), crash_props=["C10"]),
            dict(name="race-me", engine="merace", test="TestVerifRaceME", race=True, gomaxprocs=[16, 4, 2], batches=dict(quick=6, thorough=12),
                 essential={"C10": ["C10.me-reports", "C10.me-set-endpoints", "C10.me-current-reads", "C10.me-constructions"]},
                 timeout=dict(quick=900, thorough=7200), crash_props=["C10"]),
            dict(name="race-stream", engine="streamrace", test="TestVerifRaceStream", race=True, batches=dict(quick=4, thorough=12),
                 essential={"C10": ["C10.stream-programs", "C10.stream-sends", "C10.stream-recvs"]},
                 timeout=dict(quick=900, thorough=7200), crash_props=["C10"])])

def stress_stage(prop_essential):
    return dict(name="poolstress", engine="stress", test="TestVerifPoolStress", batches=dict(quick=6, thorough=16),
                essential=prop_essential, timeout=dict(quick=900, thorough=7200))

PROPS["C01"]["stages"].append(dict(name="poollin", engine="poollin", test="TestVerifPoolLin", batches=dict(quick=8, thorough=16),
                                  essential={"C01": ["C01.lin-history", "C01.lin-binds", "C01.lin-unbinds", "C01.lin-reads", "C01.lin-refresh-swaps"]}, timeout=dict(quick=900, thorough=7200)))
PROPS["C01"]["rule"] += "; poollin stage: concurrent histories (3-8 goroutines, 1-3 shared keys, 2-4 READY channels; every other history with 3-10 transparent connection refreshes completed by a callback goroutine meanwhile, results recorded as logical channels) checked by porcupine, partitioned by key; distinct = history parameters and index"
PROPS["C01"]["assumptions"] = PROPS["C01"]["assumptions"] + ["poollin stage: per-key register model (bind = write-if-absent, unbind = clear, keyed pick = read); porcupine timeouts are inconclusive"]
PROPS["C02"]["stages"].append(stress_stage({"C02": ["C02.stress-quiescent-zero", "stress.placed", "C02.stress-balanced-fill"]}))
PROPS["C07"]["stages"].append(stress_stage({"C07": ["C07.stress-one-replacement", "C07.stress-concurrent-timeouts"]}))
PROPS["C20"]["stages"].append(stress_stage({"C20": ["C20.stress-update-during-refresh-create"]}))
PROPS["C03"]["stages"].append(stress_stage({"C03": ["C03.stress-max", "C03.slow-factory-grow", "C03.stress-refresh-extra"]}))  # the gate scenario's counter is not essential: after a refactoring its site may not exist (then it is inconclusive)
PROPS["C09"]["stages"].append(stress_stage({"C09": ["C09.stress-exact", "C09.stress-bind-picks", "C09.stress-long-wait"]}))
PROPS["C05"]["stages"].append(dict(name="stream", engine="stream", test="TestVerifStream", batches=dict(quick=8, thorough=16),
                                  essential={"C05": ["C12.not-created-at-construction", "C12.bystander:before-send"]}, timeout=dict(quick=900, thorough=7200)))
PROPS["C05"]["stages"].append(dict(stress_stage({"C05": ["C05.stress-no-crash", "stress.placed"]}), crash_props=["C05"]))
PROPS["C06"]["stages"].append(stress_stage({"C06": ["C06.stress-finished", "stress.placed"]}))
for _p in ("C02", "C03", "C05", "C06", "C07", "C09", "C20"):
    PROPS[_p]["assumptions"] = PROPS[_p]["assumptions"] + ["poolstress stage: real goroutines (1 serialized callback goroutine, 12 pick goroutines, 5 completer goroutines), yield-site schedule perturbation; invariants are read at quiescence / under the balancer's own lock"]
    PROPS[_p]["rule"] += "; poolstress stage: concurrent executions (distinct = configuration and run index)"

NOT_APPLICABLE = {}

_POOL_NOTE = ("Trusted: the harness's shadow of the contract, the fake ClientConn/SubConn (gRPC 1.56 calling discipline), the build-time "
              "time.Now rewrite, Go runtime goroutine-state reporting for the deadlock/wait classification. Held = held on the histories this run generated.")
MANIFEST_TEXT = {
    "C01": dict(technique="runtime monitoring: shadow-model oracle over observed Pick/Done/NewSubConn events of generated pool histories",
                design_ref="DESIGN.md §4, §5 C01",
                level_text="Exploration: thousands of seeded random pool histories (configs x resolver updates, state reports, picks on current and stale pickers, completions, refreshes under a virtual clock) run against the real balancer/picker; every keyed pick is compared with the binding shadow (home READY => home channel; fallback off => wait), including after connection refreshes.",
                level_note=_POOL_NOTE),
}
for _p in ["C02", "C03", "C04", "C05", "C06", "C07", "C08", "C09", "C20"]:
    MANIFEST_TEXT[_p] = dict(MANIFEST_TEXT["C01"])
MANIFEST_TEXT["C02"].update(design_ref="DESIGN.md §4, §5 C02", level_text="Exploration: every unkeyed placement of every generated history is checked to be on a channel of the picker's snapshot with minimal in-flight count (harness's own count); the balancer's active-stream counters are compared with placements minus completions after every op and must be zero at quiescence; completions in any order/outcome, after refresh, after the channel left READY.")
MANIFEST_TEXT["C03"].update(design_ref="DESIGN.md §4, §5 C03", level_text="Exploration: NewSubConn/RemoveSubConn calls observed at the fake ClientConn are attributed to the op in progress; initial size, growth preconditions (saturated, below max, nothing idle/connecting => exactly one attempt and the call waits), the maxSize bound and the 'only the old connection of a completed refresh is removed' rule are checked on every op of every generated history.")
MANIFEST_TEXT["C04"].update(design_ref="DESIGN.md §4, §5 C04", level_text="Exploration: fault sequences of state reports (legal walks, arbitrary jumps, repeats, reports for unknown/retired/replacement connections, shutdowns) interleaved with refreshes; after every op the last published state is compared with the aggregate of the shadow pool, every pick checks TRANSIENT_FAILURE <=> fail-fast picker, every report checks publish-on-readiness-change / TF-boundary and no publish for ignored reports.")
MANIFEST_TEXT["C05"].update(design_ref="DESIGN.md §4, §5 C05", level_text="Exploration: hostile histories (malformed requests/replies, missing interceptor context, unknown methods, arbitrary and repeated state reports incl. for unknown/removed/orphan connections, shutdowns in any order, failing factory, stale pickers, completions after shutdown/refresh) with recover() around every call; a panic's signature is kind@innermost repo function.")
MANIFEST_TEXT["C06"].update(design_ref="DESIGN.md §3.4, §5 C06", level_text="Exploration: every operation runs in its own goroutine and its ending is classified from runtime goroutine state (done / parked in select / blocked on a mutex for >300ms with identical stack = deadlock / 10000 consecutive failing NewSubConn = spin); balancer and picker locks are probed with TryLock after every op; RR BIND waiters are released by READY / context end and must return; hard states (empty resolve, failing factory, emptied pool, saturated fallback) are steered to.")
MANIFEST_TEXT["C07"].update(design_ref="DESIGN.md §4, §5 C07", level_text="Exploration under a virtual clock: an exact per-channel detector model (last response instant, DE count, 2^k window, refreshing flag) predicts for every completion whether exactly one replacement NewSubConn must be observed; completion instants are steered to window-1ns/window/window+1ns; failed replacement attempts, swap (exactly one RemoveSubConn(old)), detection disabled => never.")
MANIFEST_TEXT["C08"].update(design_ref="DESIGN.md §4, §5 C08", level_text="Exploration: with fallback enabled, every keyed pick on the current picker whose home is not READY must be placed on a READY channel whenever one exists (also saturated, also after the stand-in was refreshed) and must reuse the recorded stand-in while it stays READY; home recovery sends the key home (C01 rule); bindings never change.")
MANIFEST_TEXT["C09"].update(design_ref="DESIGN.md §4, §5 C09", level_text="Exploration: under ROUND_ROBIN every BIND pick must go to the successor (creation order, cyclic) of the previous BIND's channel while the pool composition is unchanged, must be READY on return unless its context ended; waiting picks are observed parked (goroutine state), released by READY/refresh/cancel/virtual deadline and must then return their assigned channel.")
MANIFEST_TEXT["C20"].update(design_ref="DESIGN.md §4, §5 C20", level_text="Exploration: the fake SubConns record the last address list given (creation or UpdateAddresses) and Connect calls; after every resolver update every pool connection must carry the latest list and have been asked to connect; connections created by growth or refresh must be created with the latest list; a replacement must carry the latest list when it takes over; ResolverError must cause no boundary call.")

_ME_NOTE = "Trusted: the reference state machine written from the statement, the virtual timer heap (Stop semantics of time.AfterFunc). Held = held on the histories this run generated."
MANIFEST_TEXT["C13"] = dict(technique="runtime monitoring: reference-state-machine oracle over Current() after every step under a virtual clock",
    design_ref="DESIGN.md §5 C13", level_note=_ME_NOTE,
    level_text="Exploration: tens of thousands of seeded histories per run against the real multiEndpoint; after every step membership is checked, at every quiescent instant 'current is not a known-unavailable endpoint while another is available', 'unchanged when nothing is available', 'first of list when removed', and with delay 0 exact equality with the reference rule; empty lists must be rejected without effect.")
MANIFEST_TEXT["C14"] = dict(technique="runtime monitoring: admissible-set safety rules over Current() transitions + constructed quiescence under a virtual clock",
    design_ref="DESIGN.md §5 C14", level_note=_ME_NOTE,
    level_text="Exploration: the same histories judged by safety rules on every transition (recovering current keeps its place, no switch inside the call under a delay, never from an available endpoint to a lower-priority one), with shuffled simultaneous timers and late callbacks; convergence is decided at a constructed quiescent state (timer heap empty).")

MANIFEST_TEXT["C11"] = dict(technique="runtime monitoring: differential oracle (independent reference traversal) + panic monitor over generated values and locators",
    design_ref="DESIGN.md §5 C11", level_note="Trusted: the reference traversal and the value generator (reflect.StructOf); three-valued on shapes the statement leaves open. Held = held on the generated (value, locator) pairs.",
    level_text="Exploration: >100k generated (Go value, locator) pairs per quick run; the result of getAffinityKeysFromMessage must equal the reference's keys in order, or be an error where the reference says error, and must never panic (also on ambiguous shapes); protobuf messages with nil entries are included.")

MANIFEST_TEXT["C18"] = dict(technique="runtime monitoring: arithmetic/reference-parser oracles and a panic/termination monitor over generated inputs (two strata)",
    design_ref="DESIGN.md §3.2, §5 C18", level_note="Trusted: the reference GFE parser (big.Int arithmetic), sha256, the harness's copy of flag values into the flag variables. Held = held on the generated inputs.",
    level_text="Exploration: >100k generated inputs per quick run; backoff must satisfy base <= b(n) <= max and b(n) <= b(n+1) and return; parseT4T7Latency must equal the reference (header before trailer, first gfet4t7 entry, base-10 int64 ms, representable) and never panic; every flag set accepted by validateFlags must give resource names whose '/'-segments are exactly the supplied values, a parsable probe type and a strictly positive probe interval; payload hash = sha256.")
MANIFEST_TEXT["C19"] = dict(technique="runtime monitoring: differential oracle (independent wire-format/CRC32C reference) over generated protobuf messages",
    design_ref="DESIGN.md §5 C19", level_note="Trusted: protowire, hash/crc32, proto.Equal/proto.Unmarshal as the conforming parser. Held = held on the generated messages.",
    level_text="Exploration: tens of thousands of generated messages per quick run; Marshal output must be byte-identical to FD 7F || le32(crc32c(b)) || b for the bytes b the inner codec produced in this call; decoding the output with the codec and with proto.Unmarshal must give the original known fields and the checksum field prepended to the original unknown fields; inner codec errors must be returned unchanged.")

MANIFEST_TEXT["C17"] = dict(technique="runtime monitoring: differential oracle vs protojson, behavioural observation of the effective configuration, before/after snapshots of the caller's object",
    design_ref="DESIGN.md §5 C17", level_note="Trusted: protojson/proto.Equal as the definition of well-formed renderings, the fake ClientConn, white-box reads of gb.cfg/affinityMap as secondary checks. Held = held on the generated configurations.",
    level_text="Exploration: thousands of generated configurations per quick run; ParseConfig must accept exactly what protojson accepts with an equal result and round-trip; the pool must start with max(1,minSize) channels, tell the first call to wait exactly at watermark x channels, stop growing at maxSize; every listed-once method must behave per its command and key path and no other method may; a second config update and later mutations of the caller's object must change nothing; the caller's proto is compared before/after; GCPConfig() must be an equal, unaliased deep copy.")

MANIFEST_TEXT["C12"] = dict(technique="runtime monitoring: ordering monitor over the event log of a fake Streamer/ClientStream, gate-directed schedules, goroutine-state observation",
    design_ref="DESIGN.md §5 C12", level_note="Trusted: the fake streamer/stream and their sequence-numbered log, goroutine-state sampling. Held = held on the scenario programs run (all enumerated programs, repeated).",
    level_text="Exploration (enumerated programs x repetitions): the streamer must not be invoked before the first SendMsg, must see that message and the caller's context values, must not be invoked again after a success; a RecvMsg issued before/during creation must be observed blocked until creation finished, then be delegated with the same argument or return the creation error, and must return when the context ends; successful sends reach the stream unchanged in order; Header/Trailer/Context/CloseSend must not panic before or after creation and are delegated afterwards; the unary interceptor is transparent.")

_GME_NOTE = "Trusted: gRPC's bufconn transport and ClientConn.GetState, the model of MultiEndpoint (recovery 0 / delay 0), the goroutine-profile classification. Held = held on the walks/cases run; settle failures are counted as inconclusive."
MANIFEST_TEXT["C15"] = dict(technique="runtime monitoring: routing observed at in-process servers vs model after settle; pool-set / dial-log / monitor-goroutine invariants after every update",
    design_ref="DESIGN.md §3.4, §5 C15", level_note=_GME_NOTE,
    level_text="Exploration: walks over the real gRPC stack; after each settle every context kind must be answered by the server the model names (unary and streaming through the interceptors); after each successful update exactly one open pool per mentioned endpoint, obsolete pools Shutdown, monitors == open pools, kept endpoints not re-dialled, new ones dialled once, and every MultiEndpoint routes at once per the kept pools' connectivity.")
MANIFEST_TEXT["C16"] = dict(technique="runtime monitoring with fault injection: enumerated invalid updates / dial failures, before/after routing snapshots, ClientConn states, goroutine profile",
    design_ref="DESIGN.md §5 C16", level_note=_GME_NOTE,
    level_text="Fault enumeration: each invalidity kind and each dial-failure position, at construction and at update, repeated so that Go's map order varies; an error must be returned, the routing snapshot (every ME name, unknown name, no name) and the open pool set must be identical before/after a rejected update, no RPC may panic or hit a closed pool after any update, after Close() every dialled conn is Shutdown and no client-side goroutine remains; a failed construction leaves nothing behind.")

MANIFEST_TEXT["C10"] = dict(technique="Go race detector (-race, halt_on_error=0, reports de-duplicated by the pair of innermost repo functions) over schedule-perturbed concurrent workloads; fatal-error scanner",
    design_ref="DESIGN.md §3.3, §5 C10", level_note="Trusted: the Go race detector; the harness adds synchronisation only at the boundary (fake ClientConn mutex, atomic.Value picker hand-over as in gRPC, channel hand-over of completions). Held = no report in the executions this run produced.",
    level_text="Exploration: every workload is built with -race and executed several times per configuration with different seeds; any DATA RACE report with a repo frame or a 'concurrent map' fatal error is a violation whose signature is the unordered pair of innermost repo functions; the evidence lists picks, placements, completed swaps and the operation-kind overlap pairs observed.")

MANIFEST_TEXT["C01"]["level_text"] += " A second stage records client-boundary histories of concurrent BIND/UNBIND completions and keyed picks (3-8 goroutines, shared keys) and checks them for linearizability against a per-key register with porcupine (timeouts are inconclusive)."
MANIFEST_TEXT["C01"]["technique"] = "runtime monitoring: shadow-model oracle over observed Pick/Done/NewSubConn events of generated pool histories; porcupine linearizability check of recorded concurrent histories"
MANIFEST_TEXT["C02"]["level_text"] += " A concurrent stage (1 callback goroutine, 12 pick goroutines, 5 completer goroutines, yield-site perturbation, 7 feature configurations) checks conservation at quiescence: every placed call completed => every counter is zero, never negative."
MANIFEST_TEXT["C03"]["level_text"] += " A concurrent stage adds the gate scenario toctou-grow (one pick held after it read the pool size while another grows the pool) and the maxSize bound sampled under the balancer's lock during stress."
MANIFEST_TEXT["C05"]["level_text"] += " A concurrent stage runs the stress workload with stale pickers, many client-side deadline errors and factory failures; a crash of the child process is a violation whose signature is the panic class and innermost repo function."
MANIFEST_TEXT["C06"]["level_text"] += " Waiting round-robin picks must be observed parked (not spinning) after every operation; a concurrent stage must finish (bounded by operations and time) or the goroutines blocked on repo locks are the witness."
MANIFEST_TEXT["C09"]["level_text"] += " A concurrent stage issues exactly n*k round-robin BIND picks from 2-16 goroutines (up to 12 000 picks) on a fixed all-READY pool, interleaved with non-BIND picks: exactly k per channel."
MANIFEST_TEXT["C13"]["level_text"] += " A second stage enumerates every op sequence of length 3 (quick) / 5 (thorough, ~5.2 M sequences) over an 15-17 letter alphabet on 3 endpoints for 6 (recovery, delay) configurations."
MANIFEST_TEXT["C14"]["level_text"] += " A second stage enumerates every op sequence of length 3 (quick) / 5 (thorough, ~5.2 M sequences) over an 15-17 letter alphabet on 3 endpoints for 6 (recovery, delay) configurations, ending each in the constructed quiescent state."
MANIFEST_TEXT["C12"]["level_text"] += " Gate scenarios hold the receiver right before cond.Wait while the context is cancelled (lost wake-up) and block the underlying stream's first SendMsg while a receiver waits."
MANIFEST_TEXT["C16"]["level_text"] += " Rejected dial-failure updates are followed by a valid update that names the rolled-back endpoints; a directed scenario removes the target of a pending delayed switch."

MANIFEST_TEXT["C01"]["level_text"] += " Every other such history also has a callback goroutine completing 3-10 transparent connection refreshes (take-overs) meanwhile; results are recorded as logical channels."
MANIFEST_TEXT["C02"]["level_text"] += " The balanced-fill scenario places concurrent unkeyed picks from 2-15 goroutines on one picker without completions: the final counts must be the water-filling of the initial counts."
MANIFEST_TEXT["C03"]["level_text"] += " The slow-factory scenario lets NewSubConn take 30 ms while 2-4 saturated picks on different pickers run concurrently (pool may not exceed maxSize); 3% of the sequential histories use a watermark of 101-150 and fill one channel up to it."
MANIFEST_TEXT["C07"]["level_text"] += " A concurrent stage lets 2-11 calls per channel end with the client-side deadline error on different goroutines at the same time (window passed, balancer mutex kept busy): exactly one replacement per channel. Refresh chains of up to 70 steps reach the saturated region of the window arithmetic (model window exact up to k=63)."
MANIFEST_TEXT["C09"]["level_text"] += " A quarter of the histories / a third of the stress scenarios use pools of 5-12 channels; 12% start with the cursor a few tickets below 2^31; BIND methods with an empty key locator take part."
MANIFEST_TEXT["C20"]["level_text"] += " A concurrent stage delivers a resolver update while a slow connection factory (30 ms) is creating the replacement of a refresh: the replacement must carry the new list when it takes over."
MANIFEST_TEXT["C13"]["level_text"] += " A third stage (real clock, millisecond timers, one reporter goroutine per endpoint, readers, list re-ordering) checks that every value read from Current() is a list member. Lists with a repeated entry are generated too (membership and totality only)."
MANIFEST_TEXT["C14"]["level_text"] += " A third stage (real clock, recovery 0.3-2 ms, delay 0-1.7 ms) runs one reporter goroutine per endpoint aiming 'available' reports at the expiry of the recovery timer of the preceding 'unavailable' report; after the inputs stop Current() must reach the highest-priority endpoint whose last report says available within 5 s."
MANIFEST_TEXT["C12"]["level_text"] += " Failing streamers return a typed-nil stream next to their error in every other run; a SendMsg after creation and cancellation must reach the underlying stream; every creation attempt must show the picker the message of the SendMsg in progress."
MANIFEST_TEXT["C15"]["level_text"] += " One walk operation changes an endpoint's connectivity inside the failing dial of an update (while UpdateMultiEndpoints is in progress): routing must follow after the rejection."
MANIFEST_TEXT["C16"]["level_text"] += " Half of the enumerated invalid updates also drop a MultiEndpoint; a default naming an existing MultiEndpoint that the same update removes must be rejected."
MANIFEST_TEXT["C17"]["level_text"] += " One configuration in twelve uses values at the edge of uint32 for maxSize / watermark; GCPConfig() must stay the construction-time configuration after updates carrying none or another one."
MANIFEST_TEXT["C19"]["level_text"] += " The same message object is marshalled again after a field was added; every fourth case uses a memoising inner codec whose retained buffer has spare capacity."
for _p in MANIFEST_TEXT:
    if _p in ("C01", "C02", "C03", "C04", "C05", "C06", "C07", "C08", "C09", "C10", "C12", "C15", "C16", "C17", "C20"):
        MANIFEST_TEXT[_p]["level_text"] += " Every other batch runs with gRPC's verbose logging enabled (GRPC_GO_LOG_VERBOSITY_LEVEL=99, output discarded) so that the library's log statements are executed under the monitors."

# rounds 8-10
MANIFEST_TEXT["C01"]["level_text"] += " A key removed by a successful UNBIND must be routed like an unknown key afterwards (directed sequence: the home is reported SHUTDOWN while the UNBIND is in flight); keys with surrounding whitespace are keys of their own."
MANIFEST_TEXT["C08"]["level_text"] += " After a stand-in episode the key must go back home also when the home's old connection was shut down during its refresh and the replacement took over."
MANIFEST_TEXT["C20"]["level_text"] += " Resolved lists carry entries with the same host:port and different server names or of the deprecated balancer type (address identity = host:port, server name, type); 8% of the histories start with a resolver error before the first update; a panic in or a lock left held by ResolverError is a violation."
MANIFEST_TEXT["C05"]["level_text"] += " 10% of the hostile histories start with a state report before any configuration (half of them after a rejected foreign balancer config)."
MANIFEST_TEXT["C06"]["level_text"] += " 6% of the configurations carry a BindPickStrategy value this version does not know; a round-robin waiter that is not released is reported under this property in its own runs."
MANIFEST_TEXT["C09"]["level_text"] += " One stress scenario leaves a round-robin BIND waiting for 1.3-1.7 s of real time with its context alive."
MANIFEST_TEXT["C11"]["level_text"] += " A path through a bytes field must give an error or no keys; identifiers with surrounding whitespace name no field; every third case repeats the extraction, protobuf cases extract again after the message was changed in place."
MANIFEST_TEXT["C12"]["level_text"] += " The caller's context of a unary call ends before or during the invoker in two thirds of the cases; every other successful stream scenario ends with io.EOF from the underlying RecvMsg followed by Trailer and SendMsg (same stream, nothing created)."
MANIFEST_TEXT["C13"]["level_text"] += " One history in five uses a 37 microsecond time unit."
MANIFEST_TEXT["C14"]["level_text"] += " One history in five uses a 37 microsecond time unit (timeouts and delays that are not whole milliseconds)."
MANIFEST_TEXT["C16"]["level_text"] += " RPCs, updates and Close run under watchdogs (a call that never returns after a rejected update is a violation); an update whose list names an endpoint twice must be accepted or rejected completely."
MANIFEST_TEXT["C19"]["level_text"] += " Values nested 40-700 levels deep are generated."
