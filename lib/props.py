"""Property -> stages -> engines table used by vcheck."""

GRPCGCP_INSTR_CLOCK = {"gcp_balancer.go": ["-clock"], "gcp_picker.go": ["-clock"]}
GRPCGCP_INSTR_YIELD = {"gcp_balancer.go": ["-yield"], "gcp_picker.go": ["-yield"], "gcp_interceptor.go": ["-yield"],
                       "gcp_multiendpoint.go": ["-yield"]}

ENGINES = {
    "poolsim": dict(module="grpcgcp", pkg=".", pkgname="grpcgcp", pkgmarker="grpcgcp.", harness="grpcgcp",
                    files=["poolsim_test.go"], instrument=GRPCGCP_INSTR_CLOCK),
}

POOLSIM_ESSENTIAL = {
    "C01": ["C01.home-ready-cur", "C01.home-ready:after-refresh", "C01.home-down-wait", "C01.bind", "C01.unbind",
            "C01.rebind-ignored", "C01.failed-bind-unbind"],
    "C02": ["C02.least-loaded-multi", "C02.at-max", "C02.count", "C02.quiescent-zero", "C02.empty-snap"],
    "C03": ["C03.initial", "C03.growth-attempt", "C03.growth-blocked-by-connecting", "C03.max", "C02.at-max"],
    "C04": ["C04.aggregate", "C04.publish", "C04.publish-tf-boundary", "C04.ignored-report", "C04.tf-picker"],
    "C05": ["C05.hostile-case", "C05.malformed-handled"],
    "C06": ["C06.lock-free-after-op", "C06.hard-state", "C09.rr-wait", "C08.place-saturated"],
    "C07": ["C07.rule", "C07.rule-refresh", "C07.swap", "C07.window-boundary", "C07.window-doubled",
            "C07.started-before-last-response", "C07.disabled"],
    "C08": ["C08.fallback", "C08.place", "C08.sticky", "C08.place-saturated"],
    "C09": ["C09.successor", "C09.rr-wait", "C09.waiter-released", "C09.ctx-end"],
    "C20": ["C20.addr", "C20.replacement-addr", "C20.new-addr", "C20.resolver-error"],
}


def poolsim_stage():
    return dict(name="poolsim", engine="poolsim", test="TestVerifPoolSim",
                batches=dict(quick=8, thorough=16), essential=POOLSIM_ESSENTIAL,
                timeout=dict(quick=900, thorough=7200))


POOL_ASSUME = [
    "gRPC is replaced below the balancer API by a fake ClientConn/SubConn that follows gRPC 1.56's calling discipline (NewSubConn fails for an empty address list)",
    "sequential histories: one operation at a time (concurrency is covered by the poolstress/race stages)",
    "time is virtual: time.Now in gcp_balancer.go/gcp_picker.go is rewritten to a harness clock at build time",
]

PROPS = {}
for pid, rule in [
    ("C01", "seeded random pool histories (config x ops); non-trivial = a keyed pick on a bound key or a rebind/unbind was checked; distinct = hash of the op log"),
    ("C02", "seeded random pool histories; non-trivial = an unkeyed pick was checked against a snapshot of >=2 channels or at maxSize; distinct = hash of the op log"),
    ("C03", "seeded random pool histories; non-trivial = a saturated-pool growth decision or a pool re-creation was checked; distinct = hash of the op log"),
    ("C04", "seeded random state-report fault sequences; non-trivial = a report for a pool connection was checked against the publish rule after the first publication; distinct = hash of the op log"),
    ("C05", "seeded hostile histories (malformed requests, arbitrary reports, factory failures, stale pickers); non-trivial = >=10 hostile ops ran under the panic monitor; distinct = hash of the op log"),
    ("C06", "seeded histories incl. hard states (empty resolve, failing factory, emptied pool, saturated fallback, RR waiters); non-trivial = a hard state was driven under the deadlock/spin/lock monitors; distinct = hash of the op log"),
    ("C07", "seeded timed histories under a virtual clock; non-trivial = the model predicted a refresh, a swap completed, or a completion landed within 1ns of the window boundary; distinct = hash of the op log"),
    ("C08", "seeded histories with fallback enabled; non-trivial = a keyed pick with the home channel down was checked on the current picker; distinct = hash of the op log"),
    ("C09", "seeded histories under ROUND_ROBIN; non-trivial = a successor check or a waiting BIND pick occurred; distinct = hash of the op log"),
    ("C20", "seeded histories interleaving resolver updates with growth and refreshes; non-trivial = a replacement/growth connection's address list or a resolver error was checked; distinct = hash of the op log"),
]:
    PROPS[pid] = dict(level="exploration", rule=rule, assumptions=POOL_ASSUME, stages=[poolsim_stage()])
