#!/usr/bin/env python3
"""Compile every engine's harness once (and its -race variant where used) to warm the build cache."""
import os, sys, shutil, importlib.util
VERIF = os.path.dirname(os.path.dirname(os.path.abspath(__file__)))
sys.path.insert(0, os.path.join(VERIF, "lib"))
spec = importlib.util.spec_from_loader("vcheck", importlib.machinery.SourceFileLoader("vcheck", os.path.join(VERIF, "vcheck")))
vc = importlib.util.module_from_spec(spec)
spec.loader.exec_module(vc)
from props import PROPS
seen = set()
for pid, P in PROPS.items():
    for st in P["stages"]:
        key = (st["engine"], bool(st.get("race")))
        if key in seen:
            continue
        seen.add(key)
        work = os.path.join(VERIF, "work", "warm.%d" % os.getpid())
        shutil.rmtree(work, ignore_errors=True)
        os.makedirs(work)
        try:
            vc.build_harness(key[0], work, race=key[1])
        except Exception as ex:
            print("warm: %s failed: %s" % (key, str(ex)[:500]))
        shutil.rmtree(work, ignore_errors=True)
