#!/usr/bin/env python3
"""Regenerates /verif/MANIFEST.json from lib/props.py (single source of truth)."""
import json, os, sys
sys.path.insert(0, os.path.dirname(os.path.abspath(__file__)))
from props import PROPS, ENGINES, MANIFEST_TEXT, NOT_APPLICABLE

VERIF = os.path.dirname(os.path.dirname(os.path.abspath(__file__)))
ALL = ["C%02d" % i for i in range(1, 21)]

checks = []
for pid in ALL:
    if pid not in PROPS:
        continue
    P = PROPS[pid]
    T = MANIFEST_TEXT[pid]
    checks.append(dict(
        property_id=pid,
        quick_cmd="./vcheck %s --tier quick" % pid,
        thorough_cmd="./vcheck %s --tier thorough" % pid,
        evidence_file="/verif/evidence/%s.json" % pid,
        replay_cmd_template="./vcheck %s --replay {path}" % pid,
        engine="+".join(dict.fromkeys(s["engine"] for s in P["stages"])),
        level_claimed=dict(category=P["level"], text=T["level_text"], design_ref=T["design_ref"]),
        level_note=T["level_note"],
        technique=T["technique"],
    ))
na = [dict(property_id=p, reason=NOT_APPLICABLE.get(p, "check not built yet in this round (no claim is made)")) for p in ALL if p not in PROPS]
engines = []
for name, e in ENGINES.items():
    serves = [pid for pid in ALL if pid in PROPS and any(s["engine"] == name for s in PROPS[pid]["stages"])]
    engines.append(dict(name=name, path="/verif/harness/" + e["harness"], serves_properties=serves, kind_free_text=e.get("kind", "")))
man = dict(
    version=1,
    setup_cmd="./setup.sh",
    hooks=dict(
        guard="verif",
        enable="go test -tags verif -overlay <work>/overlay.json -modfile <work>/go.mod (harness files and instrumented source copies are injected through the overlay; no hook source is committed in /repo)",
        baseline_off_cmd="/verif/baseline_off.sh",
        source_commits=[],
        add_only=True,
    ),
    engines=engines,
    checks=checks,
    notes="Runtime monitoring only: every check executes the real code of /repo's current working tree under generated workloads and decides with monitors over observed events (see DESIGN.md). exit 0 held / exit 1 VIOLATION / exit 2 inconclusive (nothing observed, harness does not build).",
    not_applicable=na,
)
json.dump(man, open(os.path.join(VERIF, "MANIFEST.json"), "w"), indent=1)
print("MANIFEST.json: %d checks, %d not_applicable" % (len(checks), len(na)))
