"""Parse Go race detector logs (GORACE log_path=<work>/race) into de-duplicated reports."""
import glob, os, re


def _frames(block):
    fr = []
    lines = block.splitlines()
    for i, l in enumerate(lines):
        if l.startswith("  ") and not l.startswith("      ") and i + 1 < len(lines) and lines[i + 1].startswith("      "):
            fn = l.strip().rsplit("(", 1)[0]
            fr.append((fn, lines[i + 1].strip()))
    return fr


HARNESS_FN = re.compile(r"^(\(\*?(gm|sim|ss|st[A-Z]|vk|cfg|me[A-Z]|pb[A-Z]|fm|cd)[A-Za-z0-9]*\)|(gm|sim|ss|st|vk|cfg|v|pb|fm|cd|me)[A-Z]|TestVerif)")


def is_harness(name, file, pkgmarker):
    if "zz_verif" in file or "/verif/harness/" in file or "/verif/work/" in file and "instr_" not in file:
        return True
    base = name.split("/")[-1]
    if base.startswith(pkgmarker):
        base = base[len(pkgmarker):]
    return bool(HARNESS_FN.match(base))


def collect_races(work, pkgmarker):
    reports = {}
    for f in glob.glob(os.path.join(work, "race.*")):
        txt = open(f, errors="replace").read()
        for blk in txt.split("=================="):
            if "WARNING: DATA RACE" not in blk:
                continue
            # the two access stacks are the first two sections
            secs = re.split(r"\n\n", blk.strip())
            acc = [s for s in secs if re.match(r"(WARNING: DATA RACE\n)?\s*(Read|Write|Previous read|Previous write)", s.strip())]
            inner = []
            for s in acc[:2]:
                fn = "?"
                for (name, file) in _frames(s):
                    if pkgmarker in name and not is_harness(name, file, pkgmarker):
                        fn = name.split("/")[-1]
                        break
                inner.append(fn)
            while len(inner) < 2:
                inner.append("?")
            sig = "race:" + "|".join(sorted(inner))
            r = reports.setdefault(sig, dict(sig=sig, count=0, text=blk.strip()[:4000], harness_only=(inner[0] == "?" and inner[1] == "?")))
            r["count"] += 1
    return list(reports.values())
