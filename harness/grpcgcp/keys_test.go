//go:build verif
// +build verif

package grpcgcp

// keys: getAffinityKeysFromMessage on generated Go values x generated
// locators against an independent reference traversal (C11). The reference
// walks the generator's own description of the value (a tree of vkNode), not
// reflect, and is three-valued: exact keys, error, or "ambiguous shape" where
// the statement does not say what the path does (only totality is demanded).

import (
	"fmt"
	"reflect"
	"strings"
	"testing"
	"unicode"

	pb "github.com/GoogleCloudPlatform/grpc-gcp-go/grpcgcp/grpc_gcp"
)

const (
	vkString = iota
	vkInt
	vkBool
	vkBytes
	vkStruct
	vkPtr
	vkSlice
	vkIface
	vkMap
	vkArray
)

var vkKindName = []string{"string", "int", "bool", "bytes", "struct", "ptr", "slice", "iface", "map", "array"}

// vkType describes a generated Go type.
type vkType struct {
	kind   int
	elem   *vkType   // ptr, slice, map, array
	fields []vkField // struct
	rt     reflect.Type
}

type vkField struct {
	name     string
	t        *vkType
	embedded bool
}

// vkNode is a generated value of a vkType.
type vkNode struct {
	t      *vkType
	isNil  bool
	str    string
	elems  []*vkNode // slice, array, map values
	fields []*vkNode // struct
	dyn    *vkNode   // iface: dynamic value (nil => nil interface)
	target *vkNode   // ptr
}

var vkFieldNames = []string{"Key", "Keys", "Nested", "Items", "Name", "Val", "Num", "Ptr", "Any", "Tags", "Arr", "Deep", "Id", "Flag"}

type vkGen struct {
	embedding bool // generating the type of an embedded field: embed again more often
	rng       *vRand
	ifaceT    []*vkType // candidate dynamic types for interface values
}

func (g *vkGen) genType(depth int) *vkType {
	r := g.rng
	k := r.Intn(100)
	switch {
	case k < 22 || depth <= 0 && k < 60:
		return &vkType{kind: vkString}
	case k < 30:
		return &vkType{kind: vkInt}
	case k < 34:
		return &vkType{kind: vkBool}
	case k < 38:
		return &vkType{kind: vkBytes}
	case depth <= 0:
		return &vkType{kind: vkString}
	case k < 58:
		return g.genStruct(depth - 1)
	case k < 72:
		return &vkType{kind: vkPtr, elem: g.genType(depth - 1)}
	case k < 88:
		return &vkType{kind: vkSlice, elem: g.genType(depth - 1)}
	case k < 93:
		return &vkType{kind: vkIface}
	case k < 97:
		return &vkType{kind: vkMap, elem: g.genType(depth - 1)}
	default:
		return &vkType{kind: vkArray, elem: g.genType(depth - 1)}
	}
}

func (g *vkGen) genStruct(depth int) *vkType {
	r := g.rng
	n := 1 + r.Intn(4)
	t := &vkType{kind: vkStruct}
	used := map[string]bool{}
	for i := 0; i < n; i++ {
		name := vkFieldNames[r.Intn(len(vkFieldNames))]
		if used[name] {
			continue
		}
		used[name] = true
		t.fields = append(t.fields, vkField{name: name, t: g.genType(depth)})
	}
	// sometimes an embedded struct / embedded *struct (always the first field:
	// reflect.StructOf restriction-free position)
	if depth > 0 && (r.Intn(6) == 0 || g.embedding && r.Intn(2) == 0) {
		was := g.embedding
		g.embedding = true
		et := g.genStruct(depth - 1)
		g.embedding = was
		ft := et
		if r.Bool() {
			ft = &vkType{kind: vkPtr, elem: et}
		}
		t.fields = append([]vkField{{name: fmt.Sprintf("Emb%d", r.Intn(1000)), t: ft, embedded: true}}, t.fields...)
	}
	return t
}

var vkEmptyIface = reflect.TypeOf((*interface{})(nil)).Elem()

func (g *vkGen) rtype(t *vkType) (rt reflect.Type, ok bool) {
	defer func() {
		if r := recover(); r != nil {
			ok = false
		}
	}()
	if t.rt != nil {
		return t.rt, true
	}
	switch t.kind {
	case vkString:
		t.rt = reflect.TypeOf("")
	case vkInt:
		t.rt = reflect.TypeOf(int64(0))
	case vkBool:
		t.rt = reflect.TypeOf(true)
	case vkBytes:
		t.rt = reflect.TypeOf([]byte(nil))
	case vkIface:
		t.rt = vkEmptyIface
	case vkPtr:
		e, ok := g.rtype(t.elem)
		if !ok {
			return nil, false
		}
		t.rt = reflect.PtrTo(e)
	case vkSlice:
		e, ok := g.rtype(t.elem)
		if !ok {
			return nil, false
		}
		t.rt = reflect.SliceOf(e)
	case vkMap:
		e, ok := g.rtype(t.elem)
		if !ok {
			return nil, false
		}
		t.rt = reflect.MapOf(reflect.TypeOf(""), e)
	case vkArray:
		e, ok := g.rtype(t.elem)
		if !ok {
			return nil, false
		}
		t.rt = reflect.ArrayOf(2, e)
	case vkStruct:
		var sf []reflect.StructField
		for _, f := range t.fields {
			e, ok := g.rtype(f.t)
			if !ok {
				return nil, false
			}
			name := f.name
			if f.embedded {
				// the name of an embedded field is its type name; StructOf types are
				// unnamed, so use the field name and mark it anonymous
				sf = append(sf, reflect.StructField{Name: name, Type: e, Anonymous: true})
			} else {
				sf = append(sf, reflect.StructField{Name: name, Type: e})
			}
		}
		t.rt = reflect.StructOf(sf)
	}
	return t.rt, true
}

func (g *vkGen) genValue(t *vkType, depth int) *vkNode {
	r := g.rng
	n := &vkNode{t: t}
	switch t.kind {
	case vkString:
		n.str = []string{"", "a", "key-1", "kéy", "x.y", "long-long-long-key"}[r.Intn(6)]
		if r.Intn(3) == 0 {
			n.str = fmt.Sprintf("k%d", r.Intn(1000))
		}
	case vkBytes:
		if r.Intn(3) == 0 {
			n.isNil = true
		} else {
			n.str = strings.Repeat("b", r.Intn(3))
		}
	case vkStruct:
		for _, f := range t.fields {
			n.fields = append(n.fields, g.genValue(f.t, depth-1))
		}
	case vkPtr:
		if r.Intn(4) == 0 || depth < -6 {
			n.isNil = true
		} else {
			n.target = g.genValue(t.elem, depth-1)
		}
	case vkSlice:
		c := r.Intn(4)
		if r.Intn(5) == 0 {
			n.isNil = true
			c = 0
		}
		for i := 0; i < c; i++ {
			n.elems = append(n.elems, g.genValue(t.elem, depth-1))
		}
	case vkArray:
		for i := 0; i < 2; i++ {
			n.elems = append(n.elems, g.genValue(t.elem, depth-1))
		}
	case vkMap:
		for i := 0; i < r.Intn(3); i++ {
			n.elems = append(n.elems, g.genValue(t.elem, depth-1))
		}
	case vkIface:
		switch r.Intn(5) {
		case 0:
			n.isNil = true
		case 1:
			n.dyn = g.genValue(&vkType{kind: vkString}, 0)
		case 2:
			st := g.genStruct(1)
			n.dyn = g.genValue(st, 1)
		case 3:
			st := g.genStruct(1)
			n.dyn = g.genValue(&vkType{kind: vkPtr, elem: st}, 1)
		default:
			n.dyn = g.genValue(&vkType{kind: vkInt}, 0)
		}
	}
	return n
}

// build makes the reflect.Value described by n.
func (g *vkGen) build(n *vkNode) (v reflect.Value, ok bool) {
	rt, ok := g.rtype(n.t)
	if !ok {
		return reflect.Value{}, false
	}
	v = reflect.New(rt).Elem()
	switch n.t.kind {
	case vkString:
		v.SetString(n.str)
	case vkInt:
		v.SetInt(7)
	case vkBool:
		v.SetBool(true)
	case vkBytes:
		if !n.isNil {
			v.SetBytes([]byte(n.str))
		}
	case vkStruct:
		for i, f := range n.fields {
			fv, ok := g.build(f)
			if !ok {
				return v, false
			}
			v.Field(i).Set(fv)
		}
	case vkPtr:
		if !n.isNil {
			tv, ok := g.build(n.target)
			if !ok {
				return v, false
			}
			p := reflect.New(tv.Type())
			p.Elem().Set(tv)
			v.Set(p)
		}
	case vkSlice:
		if !n.isNil {
			s := reflect.MakeSlice(rt, 0, len(n.elems))
			for _, e := range n.elems {
				ev, ok := g.build(e)
				if !ok {
					return v, false
				}
				s = reflect.Append(s, ev)
			}
			v.Set(s)
		}
	case vkArray:
		for i, e := range n.elems {
			ev, ok := g.build(e)
			if !ok {
				return v, false
			}
			v.Index(i).Set(ev)
		}
	case vkMap:
		m := reflect.MakeMap(rt)
		for i, e := range n.elems {
			ev, ok := g.build(e)
			if !ok {
				return v, false
			}
			m.SetMapIndex(reflect.ValueOf(fmt.Sprintf("m%d", i)), ev)
		}
		v.Set(m)
	case vkIface:
		if !n.isNil && n.dyn != nil {
			dv, ok := g.build(n.dyn)
			if !ok {
				return v, false
			}
			v.Set(dv)
		}
	}
	return v, true
}

// ---------------------------------------------------------------- reference

const (
	vkOK = iota
	vkErr
	vkAmbig
	// vkNoKey: an error, or no keys at all - never a key (a bytes field is not a
	// string value; seen as a repeated field its elements are not strings either)
	vkNoKey
)

func vkTitle(seg string) string {
	// the contract for plain identifiers: first letter upper-cased
	if seg == "" {
		return ""
	}
	r := []rune(seg)
	r[0] = unicode.ToUpper(r[0])
	return string(r)
}

func vkPlainIdent(seg string) bool {
	if seg == "" {
		return false
	}
	for _, c := range seg {
		if !(c >= 'a' && c <= 'z' || c >= 'A' && c <= 'Z' || c >= '0' && c <= '9') {
			return false
		}
	}
	return true
}

// canReachString: can a path continue below a value of this type at all?
func vkRef(n *vkNode, path []string, i int) ([]string, int) {
	// one level of pointer / interface
	switch n.t.kind {
	case vkPtr:
		if n.isNil {
			return nil, vkErr
		}
		n = n.target
		if n.t.kind == vkPtr || n.t.kind == vkIface {
			return nil, vkAmbig
		}
	case vkIface:
		if n.isNil || n.dyn == nil {
			return nil, vkErr
		}
		n = n.dyn
		if n.t.kind == vkPtr || n.t.kind == vkIface {
			return nil, vkAmbig
		}
	}
	if i == len(path) {
		if n.t.kind == vkString {
			return []string{n.str}, vkOK
		}
		return nil, vkErr
	}
	if n.t.kind != vkStruct {
		if n.t.kind == vkMap || n.t.kind == vkArray || n.t.kind == vkSlice {
			return nil, vkAmbig
		}
		return nil, vkErr
	}
	seg := path[i]
	if strings.TrimSpace(seg) != seg && vkPlainIdent(strings.TrimSpace(seg)) {
		// an identifier with surrounding whitespace names no field (segments are
		// taken as they are)
		return nil, vkErr
	}
	if !vkPlainIdent(seg) {
		// Title-casing of non-identifier segments is not specified; such a
		// segment cannot name a generated field, but stay three-valued.
		return nil, vkAmbig
	}
	name := vkTitle(seg)
	var f *vkNode
	hasEmbedded := false
	for k, fd := range n.t.fields {
		if fd.embedded {
			hasEmbedded = true
		}
		if fd.name == name {
			f = n.fields[k]
		}
	}
	if f == nil {
		if hasEmbedded {
			return nil, vkAmbig // promoted fields: not specified
		}
		return nil, vkErr
	}
	if f.t.kind == vkSlice {
		keys := []string{}
		if len(f.elems) == 0 {
			// empty repeated field: no keys - unless the element type could never
			// lead to a string, where an implementation may equally report an error
			if !vkCanYield(f.t.elem, len(path)-(i+1)) {
				return nil, vkAmbig
			}
			return keys, vkOK
		}
		for _, e := range f.elems {
			if e.t.kind == vkSlice || e.t.kind == vkBytes {
				return nil, vkAmbig // repeated of repeated
			}
			kk, st := vkRef(e, path, i+1)
			if st != vkOK {
				return nil, st
			}
			keys = append(keys, kk...)
		}
		return keys, vkOK
	}
	if f.t.kind == vkBytes {
		return nil, vkNoKey
	}
	return vkRef(f, path, i+1)
}

// vkCanYield: could a value of type t yield string keys after `remaining` more segments?
func vkCanYield(t *vkType, remaining int) bool {
	switch t.kind {
	case vkPtr:
		if t.elem.kind == vkPtr || t.elem.kind == vkIface {
			return false
		}
		return vkCanYield(t.elem, remaining)
	case vkString:
		return remaining == 0
	case vkStruct:
		return remaining > 0
	}
	return false
}

// ---------------------------------------------------------------- locators

func (g *vkGen) validPath(n *vkNode, maxLen int) []string {
	// a random walk down struct fields from n, preferring fields that can lead
	// to strings; sometimes through a field promoted from an embedded struct
	var p []string
	cur := n.t
	for len(p) < maxLen {
		for cur.kind == vkPtr || cur.kind == vkSlice {
			cur = cur.elem
		}
		if cur.kind != vkStruct || len(cur.fields) == 0 {
			break
		}
		fs := cur.fields
		for lvl := 0; lvl < 3 && fs[0].embedded && g.rng.Intn(2) == 0; lvl++ {
			// name a field promoted through one or more levels of embedding
			et := fs[0].t
			if et.kind == vkPtr {
				et = et.elem
			}
			if len(et.fields) == 0 {
				break
			}
			fs = et.fields
		}
		f := fs[g.rng.Intn(len(fs))]
		for try := 0; try < 3 && !vkLeadsToString(f.t, 3); try++ {
			f = fs[g.rng.Intn(len(fs))]
		}
		seg := f.name
		if g.rng.Intn(4) != 0 {
			seg = strings.ToLower(seg[:1]) + seg[1:]
		}
		p = append(p, seg)
		cur = f.t
		c := cur
		for c.kind == vkPtr || c.kind == vkSlice {
			c = c.elem
		}
		if c.kind == vkString || g.rng.Intn(6) == 0 {
			break
		}
	}
	return p
}

func vkLeadsToString(t *vkType, depth int) bool {
	switch t.kind {
	case vkString:
		return true
	case vkPtr, vkSlice:
		return vkLeadsToString(t.elem, depth)
	case vkStruct:
		if depth <= 0 {
			return false
		}
		for _, f := range t.fields {
			if vkLeadsToString(f.t, depth-1) {
				return true
			}
		}
	}
	return false
}

func (g *vkGen) locator(n *vkNode) string {
	r := g.rng
	p := g.validPath(n, 5)
	switch r.Intn(22) {
	case 0:
		return ""
	case 1:
		return "."
	case 2:
		return strings.Join(p, ".") + "."
	case 3:
		return "." + strings.Join(p, ".")
	case 4:
		if len(p) > 0 {
			p[r.Intn(len(p))] = "missing"
		}
	case 5:
		if len(p) > 0 {
			p = p[:len(p)-1]
		}
	case 6:
		p = append(p, vkFieldNames[r.Intn(len(vkFieldNames))])
	case 7:
		if len(p) > 0 {
			p[r.Intn(len(p))] = strings.ToUpper(p[0])
		}
	case 8:
		if len(p) > 0 {
			p[r.Intn(len(p))] = []string{"ключ", "a_b", "a b", "9", "-", "kéy"}[r.Intn(6)]
		}
	case 9:
		if len(p) > 1 {
			i := r.Intn(len(p) - 1)
			p = append(p[:i+1], append([]string{""}, p[i+1:]...)...)
		}
	case 10:
		// a valid segment with surrounding whitespace
		if len(p) > 0 {
			i := r.Intn(len(p))
			p[i] = []string{" " + p[i], p[i] + " ", p[i] + "\t"}[r.Intn(3)]
		}
	}
	return strings.Join(p, ".")
}

// ---------------------------------------------------------------- run

type vkResult struct {
	keys     []string
	err      error
	panicked bool
	pval     interface{}
	pstack   string
}

func vkCall(locator string, msg interface{}) (res vkResult) {
	h := vStartOp(func() { res.keys, res.err = getAffinityKeysFromMessage(locator, msg) })
	st := h.await()
	if st != vDone {
		res.panicked = true
		res.pval = "did not return: " + st
		return
	}
	if h.panicked {
		res.panicked, res.pval, res.pstack = true, h.pval, h.pstack
	}
	return
}

func vkDescribe(n *vkNode, depth int) string {
	if depth > 6 {
		return "..."
	}
	switch n.t.kind {
	case vkString:
		return fmt.Sprintf("%q", n.str)
	case vkInt:
		return "7"
	case vkBool:
		return "true"
	case vkBytes:
		if n.isNil {
			return "[]byte(nil)"
		}
		return fmt.Sprintf("[]byte(%q)", n.str)
	case vkStruct:
		var p []string
		for i, f := range n.t.fields {
			nm := f.name
			if f.embedded {
				nm = "embedded " + nm
			}
			p = append(p, nm+":"+vkDescribe(n.fields[i], depth+1))
		}
		return "{" + strings.Join(p, " ") + "}"
	case vkPtr:
		if n.isNil {
			return "nil-ptr"
		}
		return "&" + vkDescribe(n.target, depth+1)
	case vkSlice, vkArray, vkMap:
		var p []string
		for _, e := range n.elems {
			p = append(p, vkDescribe(e, depth+1))
		}
		pre := map[int]string{vkSlice: "[]", vkArray: "[2]", vkMap: "map"}[n.t.kind]
		if n.isNil {
			return pre + "(nil)"
		}
		return pre + "[" + strings.Join(p, " ") + "]"
	case vkIface:
		if n.isNil || n.dyn == nil {
			return "iface(nil)"
		}
		return "iface(" + vkDescribe(n.dyn, depth+1) + ")"
	}
	return "?"
}

func vkEqual(a, b []string) bool {
	if len(a) != len(b) {
		return false
	}
	for i := range a {
		if a[i] != b[i] {
			return false
		}
	}
	return true
}

func keysCaseCount(e vEnv) int64 {
	if e.Tier == "thorough" {
		return 15000000
	}
	return 120000
}

func TestVerifKeys(t *testing.T) {
	env := vGetEnv()
	if env.Prop == "" {
		t.Skip("VERIF_PROP not set")
	}
	out := vNewOut(env, "keys")
	report := func(idx int64, rule, class, detail string, log []string) {
		sig := rule
		if class != "" {
			sig += ":" + class
		}
		out.violation(vViol{Sig: sig, Rule: rule, Detail: detail, Case: idx, Log: log})
		if env.Replay >= 0 {
			t.Logf("REPLAY case %d: %s: %s\n  %s", idx, sig, detail, strings.Join(log, "\n  "))
		}
	}
	for _, idx := range env.vCases(keysCaseCount(env)) {
		rng := vNewRand(env.Seed, "keys", idx)
		out.Evaluations++
		if idx%16 == 15 {
			vkProtoCase(rng, out, idx, report)
			continue
		}
		if idx%16 == 7 {
			vkSameNameCase(rng, out, idx, report)
			continue
		}
		if idx%16 == 3 {
			vkNamedKindsCase(rng, out, idx, report)
			continue
		}
		g := &vkGen{rng: rng}
		var top *vkType
		switch rng.Intn(10) {
		case 0:
			top = g.genType(3) // any type as the message, incl. non-struct
		case 1, 2, 3:
			top = g.genStruct(3)
		default:
			top = &vkType{kind: vkPtr, elem: g.genStruct(3)}
		}
		node := g.genValue(top, 4)
		rv, ok := g.build(node)
		if !ok {
			out.inconclusive("reflect.StructOf rejected the generated type")
			continue
		}
		var msg interface{}
		if rng.Intn(40) == 0 {
			msg = nil
			node = &vkNode{t: &vkType{kind: vkIface}, isNil: true}
		} else {
			msg = rv.Interface()
		}
		loc := g.locator(node)
		path := strings.Split(loc, ".")
		want, st := vkRef(node, path, 0)
		res := vkCall(loc, msg)
		desc := []string{"message: " + vkDescribe(node, 0), "locator: " + fmt.Sprintf("%q", loc)}
		if !res.panicked && idx%3 == 0 {
			// the same call once more (gRPC repeats a pick with the same request object)
			again := vkCall(loc, msg)
			out.hit("C11.repeated-call")
			if again.panicked {
				res = again
			} else if (again.err == nil) != (res.err == nil) || !vkEqual(again.keys, res.keys) {
				report(idx, "C11.keys", "repeat", fmt.Sprintf("the same extraction repeated gives a different answer: first keys=%q err=%v, then keys=%q err=%v", res.keys, res.err, again.keys, again.err), desc)
				continue
			}
		}
		out.hit("C11.total")
		if res.panicked {
			report(idx, "C11.panic", vPanicKind(res.pval)+"@"+vPanicSite(res.pstack, "grpcgcp."), fmt.Sprintf("getAffinityKeysFromMessage panicked: %v", res.pval), desc)
			continue
		}
		h := vHashStrings(desc)
		switch st {
		case vkOK:
			out.hit("C11.exact-keys")
			out.nontrivial(h)
			if len(want) > 1 {
				out.hit("C11.fan-out")
			}
			if len(want) == 0 {
				out.hit("C11.empty-repeated")
			}
			if res.err != nil || !vkEqual(res.keys, want) {
				report(idx, "C11.keys", "", fmt.Sprintf("got keys=%q err=%v, reference says keys=%q", res.keys, res.err, want), desc)
			} else if len(out.Samples) < 3 && len(want) > 1 {
				out.sample(map[string]interface{}{"case": idx, "message": desc[0], "locator": loc, "keys": want})
			}
		case vkErr:
			out.hit("C11.error-expected")
			out.nontrivial(h)
			if res.err == nil {
				report(idx, "C11.error-expected", "", fmt.Sprintf("got keys=%q without error, reference says the path must be an error", res.keys), desc)
			}
		case vkNoKey:
			out.hit("C11.bytes-field-never-a-key")
			out.nontrivial(h)
			if res.err == nil && len(res.keys) > 0 {
				report(idx, "C11.error-expected", "bytes", fmt.Sprintf("got keys=%q from a path through a bytes field: a bytes value is not a string value, the result must be an error (or no keys)", res.keys), desc)
			}
		default:
			out.hit("C11.ambiguous-shape-total")
		}
	}
	out.write(env.Out)
}

// vkProtoCase: generated protobuf messages (pb.ApiConfig) with hand-derived expectations.
func vkProtoCase(rng *vRand, out *vOut, idx int64, report func(int64, string, string, string, []string)) {
	cfg := &pb.ApiConfig{}
	if rng.Intn(4) != 0 {
		cfg.ChannelPool = &pb.ChannelPoolConfig{MaxSize: uint32(rng.Intn(5))}
	}
	nm := rng.Intn(4)
	anyNilAff := false
	anyNilMethod := false
	var names, akeys []string
	for i := 0; i < nm; i++ {
		if rng.Intn(8) == 0 {
			cfg.Method = append(cfg.Method, nil)
			anyNilMethod = true
			continue
		}
		m := &pb.MethodConfig{}
		for j := 0; j < rng.Intn(3); j++ {
			m.Name = append(m.Name, fmt.Sprintf("/svc/m%d", rng.Intn(10)))
		}
		if rng.Intn(4) != 0 {
			m.Affinity = &pb.AffinityConfig{AffinityKey: fmt.Sprintf("ak%d", rng.Intn(10))}
		} else {
			anyNilAff = true
		}
		cfg.Method = append(cfg.Method, m)
	}
	// expectations follow list order and stop at the first error
	type exp struct {
		loc  string
		keys []string
		err  bool
	}
	names = []string{}
	nameErr := false
	for _, m := range cfg.Method {
		if m == nil {
			nameErr = true
			break
		}
		names = append(names, m.Name...)
	}
	akeys = []string{}
	akErr := false
	for _, m := range cfg.Method {
		if m == nil || m.Affinity == nil {
			akErr = true
			break
		}
		akeys = append(akeys, m.Affinity.AffinityKey)
	}
	_ = anyNilAff
	_ = anyNilMethod
	exps := []exp{
		{"method.name", names, nameErr},
		{"method.affinity.affinityKey", akeys, akErr},
		{"channelPool.maxSize", nil, true},
		{"channelPool", nil, true},
		{"method.affinity", nil, len(cfg.Method) > 0},
		{"method.name.x", nil, len(names) > 0 || nameErr},
		{"state", nil, true},
	}
	var msg interface{} = cfg
	if rng.Intn(10) == 0 {
		msg = (*pb.ApiConfig)(nil)
		for i := range exps {
			exps[i].err = true
		}
	}
	for _, e := range exps {
		res := vkCall(e.loc, msg)
		desc := []string{fmt.Sprintf("message: pb.ApiConfig %v", msg), "locator: " + e.loc}
		out.hit("C11.proto-message")
		if res.panicked {
			report(idx, "C11.panic", vPanicKind(res.pval)+"@"+vPanicSite(res.pstack, "grpcgcp."), fmt.Sprintf("getAffinityKeysFromMessage panicked on a protobuf message: %v", res.pval), desc)
			return
		}
		if e.err {
			if res.err == nil {
				report(idx, "C11.error-expected", "proto", fmt.Sprintf("got keys=%q without error for %s", res.keys, e.loc), desc)
			}
		} else if res.err != nil || !vkEqual(res.keys, e.keys) {
			report(idx, "C11.keys", "proto", fmt.Sprintf("got keys=%q err=%v, want %q", res.keys, res.err, e.keys), desc)
		}
	}
	// the same message object again after the application changed it: the result
	// must describe the message as it is now
	if c2, ok := msg.(*pb.ApiConfig); ok && c2 != nil && !nameErr && len(names) > 0 {
		first := vkCall("method.name", msg)
		for _, m := range c2.Method {
			for i := range m.Name {
				m.Name[i] += "/changed"
			}
		}
		want := []string{}
		for _, m := range c2.Method {
			want = append(want, m.Name...)
		}
		res := vkCall("method.name", msg)
		out.hit("C11.same-object-after-change")
		if !first.panicked && !res.panicked && (res.err != nil || !vkEqual(res.keys, want)) {
			report(idx, "C11.keys", "stale", fmt.Sprintf("the message object was changed between two extractions with the same locator: got keys=%q err=%v, the message now holds %q", res.keys, res.err, want), []string{"message: pb.ApiConfig (names changed in place)", "locator: method.name"})
		}
	}
	out.nontrivial(vHashStrings([]string{fmt.Sprint(cfg)}))
}

var _ = testing.Verbose

// Distinct message types that print the same name (reflect.Type.String() is
// "grpcgcp.Msg" for each of these function-local types) but have different
// layouts: the result must depend on the value's actual type only.
func vkLocalA(k string) interface{} {
	type Msg struct {
		Key string
		Num int
	}
	return &Msg{Key: k, Num: 1}
}
func vkLocalB(k string) interface{} {
	type Msg struct {
		Num int
		Key string
	}
	return &Msg{Num: 2, Key: k}
}
func vkLocalC(k string) interface{} {
	type Msg struct {
		Other string
		Name  string
		Key   []string
	}
	return &Msg{Other: "o", Name: "n-" + k, Key: []string{k, k + "2"}}
}
func vkLocalD(k string) interface{} {
	type Inner struct{ Key string }
	type Msg struct {
		Name  int
		Inner *Inner
	}
	return &Msg{Name: 3, Inner: &Inner{Key: k}}
}
func vkLocalE(k string) interface{} {
	type Inner struct {
		Pad string
		Key string
	}
	type Msg struct {
		Inner *Inner
		Name  string
	}
	return &Msg{Inner: &Inner{Pad: "p", Key: k}, Name: "e-" + k}
}

func vkSameNameCase(rng *vRand, out *vOut, idx int64, report func(int64, string, string, string, []string)) {
	k := fmt.Sprintf("k%d", rng.Intn(100))
	type probe struct {
		name string
		msg  interface{}
		loc  string
		keys []string
		err  bool
	}
	all := []probe{
		{"A", vkLocalA(k), "key", []string{k}, false},
		{"B", vkLocalB(k), "key", []string{k}, false},
		{"C", vkLocalC(k), "key", []string{k, k + "2"}, false},
		{"A", vkLocalA(k), "num", nil, true},
		{"B", vkLocalB(k), "num", nil, true},
		{"C", vkLocalC(k), "name", []string{"n-" + k}, false},
		{"D", vkLocalD(k), "name", nil, true},
		{"E", vkLocalE(k), "name", []string{"e-" + k}, false},
		{"D", vkLocalD(k), "inner.key", []string{k}, false},
		{"E", vkLocalE(k), "inner.key", []string{k}, false},
		{"A", vkLocalA(k), "name", nil, true},
		{"C", vkLocalC(k), "num", nil, true},
	}
	// random order: whichever type is seen first must not influence the others
	for i := len(all) - 1; i > 0; i-- {
		j := rng.Intn(i + 1)
		all[i], all[j] = all[j], all[i]
	}
	for _, p := range all {
		res := vkCall(p.loc, p.msg)
		desc := []string{fmt.Sprintf("message: local type Msg variant %s (%T) %+v", p.name, p.msg, p.msg), "locator: " + p.loc}
		out.hit("C11.same-name-types")
		if res.panicked {
			report(idx, "C11.panic", vPanicKind(res.pval)+"@"+vPanicSite(res.pstack, "grpcgcp."), fmt.Sprintf("getAffinityKeysFromMessage panicked: %v", res.pval), desc)
			return
		}
		if p.err {
			if res.err == nil {
				report(idx, "C11.error-expected", "same-name-types", fmt.Sprintf("got keys=%q without error for variant %s, %s", res.keys, p.name, p.loc), desc)
				return
			}
		} else if res.err != nil || !vkEqual(res.keys, p.keys) {
			report(idx, "C11.keys", "same-name-types", fmt.Sprintf("variant %s, locator %s: got keys=%q err=%v, want %q", p.name, p.loc, res.keys, res.err, p.keys), desc)
			return
		}
	}
	out.nontrivial(vHashStrings([]string{"same-name", k}))
}

// Named (defined) string and slice types, as generated code and hand-written
// messages use them (type ID string; type IDs []ID): the kind is what counts.
type vkID string
type vkIDs []vkID
type vkTags []string
type vkNamedInner struct {
	Key  vkID
	Tags vkTags
}
type vkNamedMsg struct {
	Id    vkID
	Ids   vkIDs
	Raw   []vkID
	Tags  vkTags
	Inner *vkNamedInner
	Items []*vkNamedInner
	Num   int
}

func vkNamedKindsCase(rng *vRand, out *vOut, idx int64, report func(int64, string, string, string, []string)) {
	k := fmt.Sprintf("n%d", rng.Intn(1000))
	nItems := rng.Intn(3)
	m := &vkNamedMsg{Id: vkID(k), Ids: vkIDs{vkID(k + "a"), vkID(k + "b")}, Raw: []vkID{vkID(k + "r")}, Tags: vkTags{"t1", "t2", k}, Inner: &vkNamedInner{Key: vkID(k + "i"), Tags: vkTags{"it"}}}
	var itemKeys, itemTags []string
	for i := 0; i < nItems; i++ {
		it := &vkNamedInner{Key: vkID(fmt.Sprintf("%s-item%d", k, i)), Tags: vkTags{fmt.Sprintf("tag%d", i), "x"}}
		m.Items = append(m.Items, it)
		itemKeys = append(itemKeys, string(it.Key))
		itemTags = append(itemTags, it.Tags...)
	}
	if itemKeys == nil {
		itemKeys, itemTags = []string{}, []string{}
	}
	if rng.Intn(4) == 0 {
		m.Ids = nil
	}
	ids := []string{}
	for _, x := range m.Ids {
		ids = append(ids, string(x))
	}
	type probe struct {
		loc  string
		keys []string
		err  bool
	}
	for _, p := range []probe{
		{"id", []string{k}, false},
		{"ids", ids, false},
		{"raw", []string{k + "r"}, false},
		{"tags", []string{"t1", "t2", k}, false},
		{"inner.key", []string{k + "i"}, false},
		{"inner.tags", []string{"it"}, false},
		{"items.key", itemKeys, false},
		{"items.tags", itemTags, false},
		{"num", nil, true},
		{"ids.x", nil, len(ids) > 0},
	} {
		res := vkCall(p.loc, m)
		desc := []string{fmt.Sprintf("message: named-kind message %+v", *m), "locator: " + p.loc}
		out.hit("C11.named-kinds")
		if res.panicked {
			report(idx, "C11.panic", vPanicKind(res.pval)+"@"+vPanicSite(res.pstack, "grpcgcp."), fmt.Sprintf("getAffinityKeysFromMessage panicked: %v", res.pval), desc)
			return
		}
		if p.err {
			if res.err == nil {
				report(idx, "C11.error-expected", "named-kinds", fmt.Sprintf("got keys=%q without error for %s", res.keys, p.loc), desc)
				return
			}
		} else if res.err != nil || !vkEqual(res.keys, p.keys) {
			report(idx, "C11.keys", "named-kinds", fmt.Sprintf("locator %s: got keys=%q err=%v, want %q", p.loc, res.keys, res.err, p.keys), desc)
			return
		}
	}
	out.nontrivial(vHashStrings([]string{"named-kinds", k, fmt.Sprint(nItems)}))
}
