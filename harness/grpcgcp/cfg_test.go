//go:build verif
// +build verif

package grpcgcp

// cfg: C17 - parser fidelity (differential vs protojson on pb.ApiConfig),
// effective configuration observed behaviourally through the pool (initial
// size, first wait at the watermark, growth stop at maxSize, per-method
// routing), "fixed by the first update", and immutability / no aliasing of the
// caller's configuration object (balancer and GCPMultiEndpoint).

import (
	"context"
	"encoding/json"
	"fmt"
	"net"
	"strings"
	"testing"
	"time"

	pb "github.com/GoogleCloudPlatform/grpc-gcp-go/grpcgcp/grpc_gcp"
	"github.com/GoogleCloudPlatform/grpc-gcp-go/grpcgcp/multiendpoint"
	"google.golang.org/grpc"
	"google.golang.org/grpc/balancer"
	"google.golang.org/grpc/connectivity"
	"google.golang.org/grpc/credentials/insecure"
	"google.golang.org/protobuf/encoding/protojson"
	"google.golang.org/protobuf/proto"
)

type cfgCase struct {
	out *vOut
	idx int64
	env vEnv
	t   *testing.T
	log []string
	bad bool
}

func (c *cfgCase) say(f string, a ...interface{}) { c.log = append(c.log, fmt.Sprintf(f, a...)) }
func (c *cfgCase) report(rule, class, f string, a ...interface{}) {
	if c.bad {
		return
	}
	c.bad = true
	sig := rule
	if class != "" {
		sig += ":" + class
	}
	d := fmt.Sprintf(f, a...)
	c.out.violation(vViol{Sig: sig, Rule: rule, Detail: d, Case: c.idx, Log: c.log})
	if c.env.Replay >= 0 {
		c.t.Logf("REPLAY case %d: %s: %s\n  %s", c.idx, sig, d, strings.Join(c.log, "\n  "))
	}
}

var cfgPaths = []string{"key", "keys", "nested.key", "missing", ""}
var cfgCmds = []pb.AffinityConfig_Command{pb.AffinityConfig_BOUND, pb.AffinityConfig_BIND, pb.AffinityConfig_UNBIND}

func cfgGen(rng *vRand) *pb.ApiConfig {
	cfg := &pb.ApiConfig{}
	if rng.Intn(8) != 0 {
		cp := &pb.ChannelPoolConfig{}
		cp.MinSize = uint32(rng.Intn(4))
		cp.MaxSize = uint32(rng.Intn(5))
		if cp.MaxSize != 0 && cp.MinSize > cp.MaxSize {
			cp.MinSize = cp.MaxSize
		}
		if rng.Intn(10) == 0 {
			// legal, if odd: minSize above maxSize (or above the default maxSize 4);
			// the effective configuration still equals the supplied one
			cp.MinSize = uint32(5 + rng.Intn(2))
			cp.MaxSize = uint32(rng.Intn(4)) // 0 (default 4), 1, 2, 3
		}
		cp.MaxConcurrentStreamsLowWatermark = []uint32{0, 1, 2, 3, 5}[rng.Intn(5)]
		if rng.Intn(12) == 0 {
			// values at the edge of the field type: the effective configuration
			// still equals the supplied one (only absent/zero values get defaults)
			cp.MinSize = uint32(rng.Intn(3))
			cp.MaxSize = []uint32{1000, 1<<31 - 1, 1 << 31, 1<<32 - 1}[rng.Intn(4)]
			cp.MaxConcurrentStreamsLowWatermark = []uint32{0, 101, 1 << 31, 1<<32 - 1}[rng.Intn(4)]
		}
		cp.FallbackToReady = rng.Bool()
		if rng.Intn(3) == 0 {
			cp.UnresponsiveCalls = uint32(rng.Intn(3))
			cp.UnresponsiveDetectionMs = uint32(rng.Intn(3) * 100)
		}
		cp.BindPickStrategy = pb.ChannelPoolConfig_BindPickStrategy(rng.Intn(3))
		cp.IdleTimeout = uint64(rng.Intn(3))
		if rng.Intn(4) != 0 {
			cfg.ChannelPool = cp
		} else if rng.Bool() {
			cfg.ChannelPool = &pb.ChannelPoolConfig{}
		}
	}
	n := rng.Intn(6)
	for i := 0; i < n; i++ {
		m := &pb.MethodConfig{}
		for j := 0; j < rng.Intn(4); j++ {
			n := fmt.Sprintf("/svc/m%d", rng.Intn(8))
			if rng.Intn(10) == 0 {
				// a listed name is taken literally, also with surrounding whitespace
				n = []string{" " + n, n + " ", "\t" + n}[rng.Intn(3)]
			}
			m.Name = append(m.Name, n)
		}
		if rng.Intn(5) != 0 {
			m.Affinity = &pb.AffinityConfig{Command: cfgCmds[rng.Intn(3)], AffinityKey: cfgPaths[rng.Intn(len(cfgPaths))]}
		}
		if rng.Intn(12) == 0 {
			m = nil
		}
		cfg.Method = append(cfg.Method, m)
	}
	return cfg
}

// ---------------------------------------------------------------- (a) parser

func cfgJSONs(rng *vRand, cfg *pb.ApiConfig) []string {
	var r []string
	for _, o := range []protojson.MarshalOptions{{}, {UseProtoNames: true}, {UseEnumNumbers: true}, {EmitUnpopulated: true}, {UseProtoNames: true, EmitUnpopulated: true, Multiline: true}} {
		if b, err := o.Marshal(cfg); err == nil {
			r = append(r, string(b))
		}
	}
	base := r[rng.Intn(len(r))]
	muts := []string{
		strings.Replace(base, "{", `{"unknownField": 1,`, 1),
		strings.Replace(base, `"maxSize":`, `"maxSize":"x`, 1),
		strings.Replace(base, `"maxSize":`, `"max_size":`, 1),
		base[:len(base)/2],
		base + "}",
		base + " ",
		`{"channelPool": null}`,
		`{"channelPool": {"maxSize": "7"}}`,
		`{"channelPool": {"maxSize": 7.0}}`,
		`{"channelPool": {"maxSize": 7.5}}`,
		`{"channelPool": {"maxSize": -1}}`,
		`{"channelPool": {"maxSize": 4294967296}}`,
		`{"channelPool": {"bindPickStrategy": "ROUND_ROBIN"}}`,
		`{"channelPool": {"bindPickStrategy": "round_robin"}}`,
		`{"channelPool": {"bindPickStrategy": 2}}`,
		`{"channelPool": {"bindPickStrategy": 9}}`,
		`{"method": [{"name": "notalist"}]}`,
		`{"method": [{"name": ["a"], "affinity": {"command": "BIND", "affinityKey": "k"}}]}`,
		`{"method": [{"name": ["a"], "affinity": {"command": "bind"}}]}`,
		`{"method": [null]}`,
		`{"channelPool": {"maxSize": 1}, "channelPool": {"maxSize": 2}}`,
		`[]`, `null`, ``, `{`, `{}`, `"x"`, `{"channel_pool": {"max_size": 3, "min_size": 2}}`,
	}
	for i := 0; i < 6; i++ {
		r = append(r, muts[rng.Intn(len(muts))])
	}
	return r
}

func cfgParser(c *cfgCase, rng *vRand, cfg *pb.ApiConfig) {
	bb := newBuilder().(*gcpBalancerBuilder)
	for _, j := range cfgJSONs(rng, cfg) {
		ref := &pb.ApiConfig{}
		refErr := protojson.Unmarshal([]byte(j), ref)
		var got interface{}
		var err error
		h := vStartOp(func() { got, err = bb.ParseConfig(json.RawMessage(j)) })
		if st := h.awaitDone(30 * time.Second); st != vDone || h.panicked {
			c.say("json: %s", j)
			c.report("C17.parse-panic", "", "ParseConfig panicked or hung: %v %s", h.pval, st)
			return
		}
		c.out.hit("C17.parse")
		if refErr != nil {
			c.out.hit("C17.parse-reject")
			if err == nil {
				c.say("json: %s", j)
				c.report("C17.parse-accepts-malformed", "", "ParseConfig accepted a text protojson rejects (%v)", refErr)
				return
			}
			continue
		}
		c.out.hit("C17.parse-accept")
		if err != nil {
			c.say("json: %s", j)
			c.report("C17.parse-rejects-wellformed", "", "ParseConfig rejected a well-formed rendering: %v", err)
			return
		}
		gc, ok := got.(*GCPBalancerConfig)
		if !ok || gc.ApiConfig == nil || !proto.Equal(gc.ApiConfig, ref) {
			c.say("json: %s", j)
			c.report("C17.parse-fidelity", "", "ParseConfig result differs from the configuration the text denotes: %v vs %v", got, ref)
			return
		}
		// round trip
		b, merr := protojson.Marshal(gc.ApiConfig)
		if merr == nil {
			again, err2 := bb.ParseConfig(json.RawMessage(b))
			c.out.hit("C17.round-trip")
			if err2 != nil || !proto.Equal(again.(*GCPBalancerConfig).ApiConfig, ref) {
				c.say("json: %s", j)
				c.report("C17.round-trip", "", "marshal(parse(j)) does not parse back to the same configuration: %v", err2)
				return
			}
		}
	}
}

// ---------------------------------------------------------------- (b)(c)(d) effective configuration through the pool

// expected method table: methods listed once overall, in an entry with an affinity section
func cfgMethodTable(cfg *pb.ApiConfig) (map[string]*pb.AffinityConfig, map[string]bool) {
	count := map[string]int{}
	for _, m := range cfg.GetMethod() {
		for _, n := range m.GetName() {
			count[n]++
		}
	}
	tbl := map[string]*pb.AffinityConfig{}
	amb := map[string]bool{}
	for _, m := range cfg.GetMethod() {
		for _, n := range m.GetName() {
			if count[n] != 1 {
				amb[n] = true
				continue
			}
			if m.GetAffinity() != nil {
				tbl[n] = m.GetAffinity()
			}
		}
	}
	return tbl, amb
}

type cfgOnlyKey struct{ Key string }
type cfgOnlyKeys struct{ Keys []string }
type cfgOnlyNested struct{ Nested *simNested }
type cfgNoKey struct {
	Keys   []string
	Nested *simNested
}
type cfgNoKeys struct {
	Key    string
	Nested *simNested
}
type cfgNoNested struct {
	Key  string
	Keys []string
}
type cfgNoFields struct{ Other int }

// cfgReqFor: only=true: a request in which only `path` exists;
// only=false: a request in which every path except `path` exists.
func cfgReqFor(path string, key string, only bool) interface{} {
	switch path {
	case "key":
		if only {
			return &cfgOnlyKey{Key: key}
		}
		return &cfgNoKey{Keys: []string{key}, Nested: &simNested{Key: key}}
	case "keys":
		if only {
			return &cfgOnlyKeys{Keys: []string{key}}
		}
		return &cfgNoKeys{Key: key, Nested: &simNested{Key: key}}
	default:
		if only {
			return &cfgOnlyNested{Nested: &simNested{Key: key}}
		}
		return &cfgNoNested{Key: key, Keys: []string{key}}
	}
}

func cfgPool(c *cfgCase, rng *vRand, cfg *pb.ApiConfig) {
	before := proto.Clone(cfg)
	beforeBytes, _ := proto.MarshalOptions{Deterministic: true}.Marshal(cfg)
	verifClockOn = true
	verifClock = time.Unix(1000000, 0)
	out := vNewOut(c.env, "cfg-inner")
	s := &sim{rng: rng, out: out, prop: "C17", bind: map[string]*simChan{}, stand: map[string]*simChan{}, caseIdx: c.idx, hits: map[string]int64{}}
	s.hostile = true // the poolsim rule monitors are off; this engine asserts its own expectations
	s.methods = map[string]simMethod{}
	s.b = newBuilder().Build(simCC{s: s}, balancer.BuildOptions{}).(*gcpBalancer)
	cp := cfg.GetChannelPool()
	wantMin, wantMax, wantWm := int(cp.GetMinSize()), int(cp.GetMaxSize()), int(cp.GetMaxConcurrentStreamsLowWatermark())
	if wantMin == 0 {
		wantMin = 1
	}
	if wantMax == 0 {
		wantMax = 4
	}
	if wantWm == 0 {
		wantWm = 100
	}
	s.minSize, s.maxSize, s.wm = wantMin, wantMax, wantWm
	c.say("config %v (effective min=%d max=%d watermark=%d)", cfg, wantMin, wantMax, wantWm)
	s.resolve(false, cfg, true)
	if s.viol != nil || s.dead {
		c.report("C17.update-failed", "", "first resolver update failed: %v", s.viol)
		return
	}
	c.out.hit("C17.initial-size")
	if len(s.pool()) != wantMin {
		c.report("C17.initial-size", "", "initial pool has %d channels, effective minSize is %d", len(s.pool()), wantMin)
		return
	}
	// (c) fixed by the first update; (d) aliasing: mutate the caller's object now
	variant := rng.Intn(5)
	if variant == 4 && cfg.GetChannelPool().GetBindPickStrategy() == pb.ChannelPoolConfig_ROUND_ROBIN {
		// shut-down channels stay in the round-robin rotation; the statements are
		// silent about that, so the emptied-pool variant is not combined with RR
		variant = 0
	}
	if variant == 4 {
		// the pool is emptied (every connection shut down, as at teardown), then a
		// resolver update carrying a different config arrives: the pool is
		// re-created, but the configuration stays the first one
		for _, ch := range s.pool() {
			s.report(ch.conn, connectivity.Shutdown)
		}
		other := cfgGen(rng)
		if other.ChannelPool == nil {
			other.ChannelPool = &pb.ChannelPoolConfig{}
		}
		other.ChannelPool.MaxSize = uint32(wantMax + 2)
		other.ChannelPool.MaxConcurrentStreamsLowWatermark = uint32(wantWm + 3)
		other.ChannelPool.MinSize = uint32(wantMin + 1)
		other.Method = append(other.Method, &pb.MethodConfig{Name: []string{"/svc/extra"}, Affinity: &pb.AffinityConfig{Command: pb.AffinityConfig_BOUND, AffinityKey: "missing"}})
		withCfg := rng.Intn(3) != 0
		c.say("pool emptied, then a resolver update (config attached: %v) %v", withCfg, other)
		s.resolve(false, other, withCfg)
		c.out.hit("C17.update-on-emptied-pool")
		if s.viol != nil || s.dead {
			c.report("C17.update-failed", "emptied", "resolver update on the emptied pool failed: %v", s.viol)
			return
		}
		upper := wantMax
		if wantMin > upper {
			upper = wantMin // minSize above maxSize: the initial / re-created pool has minSize channels
		}
		if len(s.pool()) < 1 || len(s.pool()) > upper {
			c.report("C17.fixed-by-first", "emptied-pool-size", "re-created pool has %d channels, first config allows 1..%d", len(s.pool()), upper)
			return
		}
		// the rest of the observations (watermark, maxSize, method table) run on the re-created pool
		wantMin = len(s.pool())
	}
	if variant == 1 || variant == 3 {
		other := cfgGen(rng)
		if other.ChannelPool == nil {
			other.ChannelPool = &pb.ChannelPoolConfig{}
		}
		other.ChannelPool.MaxSize = uint32(wantMax + 2)
		other.ChannelPool.MaxConcurrentStreamsLowWatermark = uint32(wantWm + 3)
		other.ChannelPool.MinSize = uint32(wantMin + 1)
		other.Method = append(other.Method, &pb.MethodConfig{Name: []string{"/svc/extra"}, Affinity: &pb.AffinityConfig{Command: pb.AffinityConfig_BOUND, AffinityKey: "missing"}})
		c.say("second resolver update with a different config %v", other)
		s.resolve(false, other, true)
		c.out.hit("C17.second-update")
		if s.viol != nil || s.dead {
			c.report("C17.update-failed", "second", "second resolver update failed: %v", s.viol)
			return
		}
		if len(s.pool()) != wantMin {
			c.report("C17.fixed-by-first", "pool-size", "a second config update changed the pool size to %d", len(s.pool()))
			return
		}
	}
	if variant == 2 || variant == 3 {
		c.say("caller mutates its config object after the update")
		if cfg.ChannelPool == nil {
			cfg.ChannelPool = &pb.ChannelPoolConfig{}
		}
		cfg.ChannelPool.MaxSize = uint32(wantMax + 3)
		cfg.ChannelPool.MaxConcurrentStreamsLowWatermark = uint32(wantWm + 5)
		cfg.Method = append(cfg.Method, &pb.MethodConfig{Name: []string{"/svc/extra2"}, Affinity: &pb.AffinityConfig{Command: pb.AffinityConfig_BOUND, AffinityKey: "missing"}})
		for _, m := range cfg.Method {
			if m != nil && m.Affinity != nil {
				m.Affinity.AffinityKey = "missing"
				m.Affinity.Command = pb.AffinityConfig_BOUND
			}
		}
		c.out.hit("C17.caller-mutates")
	} else {
		// immutability: the caller's object is untouched by the update
		afterBytes, _ := proto.MarshalOptions{Deterministic: true}.Marshal(cfg)
		c.out.hit("C17.caller-object-unchanged")
		if !proto.Equal(cfg, before) || string(afterBytes) != string(beforeBytes) {
			c.report("C17.caller-object-mutated", "balancer", "UpdateClientConnState modified the caller's configuration: %v -> %v", before, cfg)
			return
		}
	}
	orig := before.(*pb.ApiConfig)
	// white-box secondary: effective config
	eff := proto.Clone(orig).(*pb.ApiConfig)
	if eff.ChannelPool == nil {
		eff.ChannelPool = &pb.ChannelPoolConfig{}
	}
	eff.ChannelPool.MinSize, eff.ChannelPool.MaxSize, eff.ChannelPool.MaxConcurrentStreamsLowWatermark = uint32(wantMin), uint32(wantMax), uint32(wantWm)
	c.out.hit("C17.effective-config-wb")
	if s.b.cfg == nil || !proto.Equal(s.b.cfg.ApiConfig, eff) {
		c.report("C17.effective-config", "", "effective config is %v, want %v", s.b.cfg, eff)
		return
	}
	if wantMax > 64 || wantWm > 200 {
		// edge values: the pool cannot be loaded that far; a growth beyond the default
		// maxSize of 4 is still observable when the watermark is small
		c.out.hit("C17.edge-values")
		c.out.nontrivial(vHashStrings([]string{"edge", orig.String()}))
		return
	}

	// all READY
	ready := func() bool {
		for _, ch := range s.pool() {
			for ch.conn.state != connectivity.Ready && s.viol == nil && !s.dead {
				switch ch.conn.state {
				case connectivity.Idle:
					s.report(ch.conn, connectivity.Connecting)
				default:
					s.report(ch.conn, connectivity.Ready)
				}
			}
		}
		return s.viol == nil && !s.dead
	}
	if !ready() {
		c.report("C17.update-failed", "ready", "could not bring the pool up: %v", s.viol)
		return
	}
	// method routing (before loading the pool)
	tbl, amb := cfgMethodTable(orig)
	probe := func(method string, req interface{}) (balancer.PickResult, error, bool) {
		p := s.pubs[len(s.pubs)-1]
		ctx := s.mkCtx(true, req, false, 0)
		var pr balancer.PickResult
		var err error
		h, st := s.exec(func() { pr, err = p.picker.Pick(balancer.PickInfo{FullMethodName: method, Ctx: ctx}) })
		if st != vDone || h.panicked {
			c.report("C17.probe-failed", "", "probe pick of %s did not complete: %s %v", method, st, h.pval)
			return pr, err, false
		}
		if err == nil && pr.Done != nil {
			// complete at once with an error so that nothing is bound and no load remains
			ctx.gc.replyMsg = &simMsg{}
			pr.Done(balancer.DoneInfo{Err: fmt.Errorf("probe")})
		}
		return pr, err, true
	}
	names := []string{"/svc/m0", "/svc/m1", "/svc/m2", "/svc/m3", "/svc/m4", "/svc/m5", "/svc/m6", "/svc/m7", "/svc/extra", "/svc/extra2", "/svc/unlisted"}
	for _, m := range orig.GetMethod() {
		for _, n := range m.GetName() {
			if strings.TrimSpace(n) != n {
				names = append(names, n)
				c.out.hit("C17.method-name-with-whitespace")
			}
		}
	}
	rr := orig.GetChannelPool().GetBindPickStrategy() == pb.ChannelPoolConfig_ROUND_ROBIN
	for _, n := range names {
		if amb[n] || c.bad {
			continue
		}
		aff := tbl[n]
		keyed := aff != nil && (aff.GetCommand() == pb.AffinityConfig_BOUND || aff.GetCommand() == pb.AffinityConfig_UNBIND)
		path := aff.GetAffinityKey()
		// a request in which no key path resolves: fails iff the method is mapped to BOUND/UNBIND
		_, err, ok := probe(n, &cfgNoFields{})
		if !ok {
			return
		}
		c.out.hit("C17.method-mapping")
		keyErr := err != nil && strings.Contains(err.Error(), "affinity key")
		if keyed != keyErr {
			c.report("C17.method-mapping", map[bool]string{true: "listed-not-mapped", false: "unlisted-mapped"}[keyed], "method %s: mapped to BOUND/UNBIND by the config=%v, but a request without keys gave err=%v", n, keyed, err)
			return
		}
		if keyed && (path == "key" || path == "keys" || path == "nested.key") {
			// only the entry's own key path may be consulted
			_, err1, ok1 := probe(n, cfgReqFor(path, "kX", true))
			_, err2, ok2 := probe(n, cfgReqFor(path, "kX", false))
			if !ok1 || !ok2 {
				return
			}
			c.out.hit("C17.method-key-path")
			e1 := err1 != nil && strings.Contains(err1.Error(), "affinity key")
			e2 := err2 != nil && strings.Contains(err2.Error(), "affinity key")
			if e1 || !e2 {
				c.report("C17.method-key-path", "", "method %s must read key path %q: request with only that path -> %v, request with every other path -> %v", n, path, err1, err2)
				return
			}
		}
		if aff != nil && aff.GetCommand() == pb.AffinityConfig_BIND && !rr && (path == "key" || path == "keys" || path == "nested.key") {
			// BIND: a successful completion binds the reply's key (white-box read of the table, as the repo's own tests do)
			p := s.pubs[len(s.pubs)-1]
			ctx := s.mkCtx(true, &simMsg{}, false, 0)
			var pr balancer.PickResult
			var err error
			h, st := s.exec(func() { pr, err = p.picker.Pick(balancer.PickInfo{FullMethodName: n, Ctx: ctx}) })
			if st == vDone && !h.panicked && err == nil {
				k := fmt.Sprintf("bind-%s", strings.Replace(n, "/", "_", -1))
				ctx.gc.replyMsg = cfgReqFor(path, k, true)
				pr.Done(balancer.DoneInfo{})
				c.out.hit("C17.method-bind")
				s.b.mu.Lock()
				_, bound := s.b.affinityMap[k]
				s.b.mu.Unlock()
				if !bound {
					c.report("C17.method-mapping", "bind", "BIND method %s (key path %q) did not bind the key of its reply", n, path)
					return
				}
			}
		}
	}
	if c.bad {
		return
	}
	// watermark and maxSize: place calls without completing them
	p := func() *simPub { return s.pubs[len(s.pubs)-1] }
	placed := 0
	waits := 0
	firstWaitAt := -1
	poolAtFirstWait := 0
	for step := 0; step < 3000 && !c.bad; step++ {
		ctx := s.mkCtx(true, &simMsg{}, false, 0)
		var err error
		var pr balancer.PickResult
		poolBefore := len(s.pool())
		h, st := s.exec(func() { pr, err = p().picker.Pick(balancer.PickInfo{FullMethodName: "/svc/unlisted", Ctx: ctx}) })
		if st != vDone || h.panicked {
			c.report("C17.probe-failed", "load", "pick did not complete: %s %v", st, h.pval)
			return
		}
		for _, nc := range s.newInOp {
			s.newChannel(nc)
		}
		s.newInOp = nil
		if err == nil {
			_ = pr
			placed++
			if len(s.pool()) >= wantMax && placed > wantWm*len(s.pool()) {
				break
			}
			continue
		}
		waits++
		if firstWaitAt < 0 {
			firstWaitAt, poolAtFirstWait = placed, poolBefore
		}
		if !ready() {
			c.report("C17.update-failed", "ready2", "could not bring the grown pool up: %v", s.viol)
			return
		}
		if waits > 20 {
			break
		}
	}
	c.out.hit("C17.watermark")
	if wantMin < wantMax {
		// the pool can grow: the first wait must come exactly when every channel holds `watermark` calls
		if firstWaitAt != wantWm*wantMin || poolAtFirstWait != wantMin {
			c.report("C17.watermark", "", "first 'wait' after %d placed calls on %d channels, want %d (watermark %d x %d channels)", firstWaitAt, poolAtFirstWait, wantWm*wantMin, wantWm, wantMin)
			return
		}
	} else if firstWaitAt >= 0 {
		c.report("C17.max-size", "wait-at-max", "pool at maxSize=%d told a call to wait", wantMax)
		return
	}
	c.out.hit("C17.max-size")
	wantFinal := wantMax
	if wantMin > wantMax {
		wantFinal = wantMin
	}
	if len(s.pool()) != wantFinal {
		c.report("C17.max-size", "", "after saturating, the pool has %d channels, effective maxSize is %d (min %d)", len(s.pool()), wantMax, wantMin)
		return
	}
	c.out.nontrivial(vHashStrings([]string{before.(*pb.ApiConfig).String(), fmt.Sprint(variant)}))
	if len(c.out.Samples) < 2 {
		c.out.sample(map[string]interface{}{"case": c.idx, "config": before.(*pb.ApiConfig).String(), "variant": variant, "first_wait_after": firstWaitAt, "final_pool": len(s.pool())})
	}
}

// ---------------------------------------------------------------- (d) GCPMultiEndpoint

func cfgGME(c *cfgCase, rng *vRand, cfg *pb.ApiConfig) {
	// nil method entries cannot be rendered to JSON; the constructor rejects them
	before := proto.Clone(cfg).(*pb.ApiConfig)
	dial := func(ctx context.Context, target string, opts ...grpc.DialOption) (*grpc.ClientConn, error) {
		opts = append(opts, grpc.WithTransportCredentials(insecure.NewCredentials()),
			grpc.WithContextDialer(func(context.Context, string) (net.Conn, error) { return nil, fmt.Errorf("verif: no network") }))
		return grpc.DialContext(ctx, "passthrough:///"+target, opts...)
	}
	opts := &GCPMultiEndpointOptions{
		GRPCgcpConfig: cfg,
		MultiEndpoints: map[string]*multiendpoint.MultiEndpointOptions{
			"default": {Endpoints: []string{"e1", "e2"}},
		},
		Default:  "default",
		DialFunc: dial,
	}
	var gme *GCPMultiEndpoint
	var err error
	h := vStartOp(func() { gme, err = NewGCPMultiEndpoint(opts) })
	if st := h.awaitDone(30 * time.Second); st != vDone || h.panicked {
		c.report("C17.gme-panic", "", "NewGCPMultiEndpoint panicked or hung: %v %s", h.pval, st)
		return
	}
	c.out.hit("C17.gme-construct")
	if err != nil {
		if !proto.Equal(cfg, before) {
			c.report("C17.caller-object-mutated", "gme-failed-construct", "failed construction modified the caller's configuration")
		}
		return
	}
	defer gme.Close()
	if !proto.Equal(cfg, before) {
		c.report("C17.caller-object-mutated", "gme", "NewGCPMultiEndpoint modified the caller's configuration: %v -> %v", before, cfg)
		return
	}
	got := gme.GCPConfig()
	c.out.hit("C17.gme-config-copy")
	if !proto.Equal(got, before) {
		c.report("C17.gme-config", "", "GCPConfig()=%v, supplied %v", got, before)
		return
	}
	if got == cfg {
		c.report("C17.gme-config", "alias-caller", "GCPConfig() returns the caller's object itself")
		return
	}
	// mutate the returned copy and the caller's object: neither may show through
	if got.ChannelPool == nil {
		got.ChannelPool = &pb.ChannelPoolConfig{}
	}
	got.ChannelPool.MaxSize += 7
	// also nested parts of the returned copy: entries of the method list, their name lists and affinity sections
	for _, m := range got.Method {
		if m == nil {
			continue
		}
		for i := range m.Name {
			m.Name[i] += "-changed"
		}
		m.Name = append(m.Name, "/changed/by/caller")
		if m.Affinity != nil {
			m.Affinity.AffinityKey += ".changed"
			m.Affinity.Command = pb.AffinityConfig_UNBIND
		} else {
			m.Affinity = &pb.AffinityConfig{AffinityKey: "added"}
		}
		c.out.hit("C17.gme-config-nested-mutation")
	}
	got.Method = append(got.Method, &pb.MethodConfig{Name: []string{"x"}})
	if cfg.ChannelPool == nil {
		cfg.ChannelPool = &pb.ChannelPoolConfig{}
	}
	cfg.ChannelPool.MinSize += 5
	for _, m := range cfg.Method {
		if m != nil {
			m.Name = append(m.Name, "y")
		}
	}
	again := gme.GCPConfig()
	if !proto.Equal(again, before) {
		c.report("C17.gme-config", "aliased", "after mutating the returned copy and the caller's object GCPConfig()=%v, want the original %v", again, before)
		return
	}
	// an update must not touch the (new) caller object either
	// (the update's own config section is not the pool configuration: that was fixed
	// at construction - an endpoints-only update carries none, or a different one)
	cfg2 := proto.Clone(before).(*pb.ApiConfig)
	switch rng.Intn(3) {
	case 0:
		cfg2 = nil
	case 1:
		if cfg2.ChannelPool == nil {
			cfg2.ChannelPool = &pb.ChannelPoolConfig{}
		}
		cfg2.ChannelPool.MaxSize += 3
		cfg2.Method = append(cfg2.Method, &pb.MethodConfig{Name: []string{"/late/method"}, Affinity: &pb.AffinityConfig{Command: pb.AffinityConfig_BOUND, AffinityKey: "k"}})
	}
	var snap *pb.ApiConfig
	if cfg2 != nil {
		snap = proto.Clone(cfg2).(*pb.ApiConfig)
	}
	opts2 := &GCPMultiEndpointOptions{GRPCgcpConfig: cfg2, MultiEndpoints: map[string]*multiendpoint.MultiEndpointOptions{"default": {Endpoints: []string{"e2", "e3"}}}, Default: "default", DialFunc: dial}
	h2 := vStartOp(func() { err = gme.UpdateMultiEndpoints(opts2) })
	if st := h2.awaitDone(30 * time.Second); st != vDone || h2.panicked {
		c.report("C17.gme-panic", "update", "UpdateMultiEndpoints panicked or hung: %v %s", h2.pval, st)
		return
	}
	c.out.hit("C17.gme-update")
	if cfg2 != nil && !proto.Equal(cfg2, snap) {
		c.report("C17.caller-object-mutated", "gme-update", "UpdateMultiEndpoints modified the caller's configuration")
		return
	}
	if err != nil {
		c.report("C17.gme-config", "update-rejected", "an endpoints-only UpdateMultiEndpoints was rejected: %v", err)
		return
	}
	if after := gme.GCPConfig(); !proto.Equal(after, before) {
		c.report("C17.gme-config", "after-update", "GCPConfig() changed after UpdateMultiEndpoints: %v, the configuration fixed at construction is %v", after, before)
		return
	}
	c.out.nontrivial(vHashStrings([]string{"gme", before.String()}))
}

func cfgCaseCount(e vEnv) int64 {
	if e.Tier == "thorough" {
		return 1500000
	}
	return 16000
}

func TestVerifCfg(t *testing.T) {
	env := vGetEnv()
	if env.Prop == "" {
		t.Skip("VERIF_PROP not set")
	}
	out := vNewOut(env, "cfg")
	for _, idx := range env.vCases(cfgCaseCount(env)) {
		rng := vNewRand(env.Seed, "cfg", idx)
		c := &cfgCase{out: out, idx: idx, env: env, t: t}
		out.Evaluations++
		cfg := cfgGen(rng)
		hasNil := false
		for _, m := range cfg.Method {
			if m == nil {
				hasNil = true
			}
		}
		switch {
		case idx%20 == 19 && !hasNil:
			cfgGME(c, rng, cfg)
		case idx%3 == 0 && !hasNil:
			cfgParser(c, rng, cfg)
			if !c.bad {
				out.nontrivial(vHashStrings([]string{"parse", cfg.String()}))
			}
		default:
			cfgPool(c, rng, cfg)
		}
		if env.Replay >= 0 && !c.bad {
			t.Logf("REPLAY case %d: no violation\n  %s", idx, strings.Join(c.log, "\n  "))
		}
	}
	out.write(env.Out)
}
