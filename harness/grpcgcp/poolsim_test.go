//go:build verif
// +build verif

package grpcgcp

// poolsim: sequential, virtual-time simulation of the channel pool against an
// independent shadow of the user-visible contract (DESIGN §4). The shadow is
// updated from boundary observations only (what the balancer passes to the
// fake ClientConn / SubConns, what Pick returns, what Done is told); every
// observation is compared with the set of outcomes properties C01-C09 and C20
// admit. White-box reads are secondary checks only.

import (
	"context"
	"fmt"
	"io/ioutil"
	"os"
	"reflect"
	"sort"
	"strconv"
	"strings"
	"testing"
	"time"
	"unsafe"

	pb "github.com/GoogleCloudPlatform/grpc-gcp-go/grpcgcp/grpc_gcp"
	"google.golang.org/grpc/balancer"
	"google.golang.org/grpc/codes"
	"google.golang.org/grpc/connectivity"
	"google.golang.org/grpc/grpclog"
	"google.golang.org/grpc/resolver"
	"google.golang.org/grpc/serviceconfig"
	"google.golang.org/grpc/status"
)

func init() {
	// output is discarded, but the verbosity asked for through gRPC's own
	// environment variable is honoured: vcheck runs every other batch with verbose
	// logging so that the statements behind log.V(...) are executed (and formatted)
	v, _ := strconv.Atoi(os.Getenv("GRPC_GO_LOG_VERBOSITY_LEVEL"))
	grpclog.SetLoggerV2(grpclog.NewLoggerV2WithVerbosity(ioutil.Discard, ioutil.Discard, ioutil.Discard, v))
}

// ------------------------------------------------------------------ fakes

type simConn struct {
	balancer.SubConn
	id       int
	addrs    string
	addrSet  int // how many times addresses were given (creation + UpdateAddresses)
	connects int
	state    connectivity.State
	removed  int
	ch       *simChan // channel it currently serves
	replOf   *simChan // channel it is the pending replacement of
	retired  bool     // swapped out by a completed refresh
	fake     bool     // fabricated by the harness, never created by the balancer
	sim      *sim
}

func (c *simConn) UpdateAddresses(a []resolver.Address) {
	c.addrs = simAddrStr(a)
	c.addrSet++
	c.sim.boundary++
}
func (c *simConn) Connect()       { c.connects++; c.sim.boundary++ }
func (c *simConn) String() string { return fmt.Sprintf("sc%d", c.id) }

func simAddrStr(a []resolver.Address) string {
	s := []string{}
	for _, x := range a {
		e := x.Addr
		if x.ServerName != "" {
			e += "/" + x.ServerName
		}
		if x.Type != 0 {
			e += fmt.Sprintf("/type%d", x.Type)
		}
		s = append(s, e)
	}
	return strings.Join(s, ",")
}

type simChan struct {
	id       int
	conn     *simConn
	repl     *simConn
	inflight int
	alive    bool
	// detector model (C07)
	t0         time.Time
	n          uint32
	k          uint32
	refreshing bool
	refreshes  int // completed refreshes (never reset)
	// suspended: the old connection was shut down while a replacement is pending;
	// the channel comes back when the replacement becomes READY (the repository's
	// own TestShutdownWhileRefreshing expects exactly that take-over)
	suspended bool
}

func (c *simChan) ready() bool { return c.alive && c.conn.state == connectivity.Ready }

type simPub struct {
	idx    int
	state  connectivity.State
	picker balancer.Picker
	snap   []*simChan
}

type simCall struct {
	id      int
	ch      *simChan
	kind    string
	method  string
	key     string // key carried by the request (as seen by the picker), "" if none
	start   time.Time
	ctx     *simCtx
	done    func(balancer.DoneInfo)
	orphan  bool // its channel died: completed with a response outcome only (exact mode)
	stalePk bool
}

// simCtx is the call context: deadline and cancellation are driven by the
// harness (virtual time).
type simCtx struct {
	dl     time.Time
	hasDl  bool
	gc     *gcpContext
	doneCh chan struct{}
	ended  bool
	err    error
}

func (c *simCtx) Deadline() (time.Time, bool) { return c.dl, c.hasDl }
func (c *simCtx) Done() <-chan struct{}       { return c.doneCh }
func (c *simCtx) Err() error                  { return c.err }
func (c *simCtx) Value(k interface{}) interface{} {
	if k == gcpKey {
		if c.gc != nil {
			return c.gc
		}
		return nil
	}
	return nil
}
func (c *simCtx) end(err error) {
	if !c.ended {
		c.ended = true
		c.err = err
		close(c.doneCh)
	}
}

var _ context.Context = (*simCtx)(nil)

// request / reply message used by the configured methods
type simNested struct{ Key string }

// hostile shapes: the key field is promoted through an embedded pointer
type simEmbInner struct{ Key string }
type simEmbMsg struct {
	*simEmbInner
	Other string
}
type simMsg struct {
	Key    string
	Keys   []string
	Nested *simNested
	Num    int
}

type simWaiter struct {
	op    *vOp
	ctx   *simCtx
	exp   *simChan
	res   *balancer.PickResult
	err   *error
	kind  string
	since int // op counter at which it parked
}

type simSpin struct{}

type sim struct {
	rng   *vRand
	out   *vOut
	prop  string
	b     *gcpBalancer
	cp    *pb.ChannelPoolConfig
	conns []*simConn
	chans []*simChan // creation order, includes dead
	pubs  []*simPub
	calls []*simCall
	nCall int
	bind  map[string]*simChan
	stand map[string]*simChan
	addrV int
	addrs string

	// per-op observation
	curOp    string
	newInOp  []*simConn
	newFail  int
	failNext int
	failRun  int
	rmInOp   []*simConn
	pubInOp  int
	boundary int

	hostile  bool
	exactRR  bool // RR successor tracking is valid
	rr       bool
	lastRR   *simChan
	compVer  int
	rrVer    int
	waiters  []*simWaiter
	opCount  int
	resolved bool // a non-empty resolver update was accepted

	log        []string
	viol       *vViol
	exemptMax  bool
	macroTries int
	// keys that were served by a stand-in at some point of this history
	stoodIn map[string]bool
	// keys removed by a successful UNBIND and not bound again since
	unbound map[string]bool
	// NewSubConn calls that passed an empty address list although the latest resolved list is not empty
	emptyAddrCalls int
	// an empty resolver list is being delivered right now (s.addrs is updated after the call)
	resolvingEmpty bool
	stuck          bool // an op goroutine was left spinning: stop the whole batch (it burns a CPU)
	dead           bool // the balancer is unusable (deadlock) - stop the history
	caseIdx        int64
	hits           map[string]int64

	// effective configuration (contract defaults applied by the harness)
	minSize, maxSize, wm int
	fallback, det        bool
	ucalls, ms           uint32
	bias                 map[string]bool
	methods              map[string]simMethod
}

type simMethod struct {
	cmd  string // bind, bound, unbind
	path string
}

func (s *sim) say(f string, a ...interface{}) {
	if len(s.log) < 400 {
		s.log = append(s.log, fmt.Sprintf(f, a...))
	}
}
func (s *sim) hit(rule string) { s.hits[rule]++ }

// fail records the first violation of the history. sig = rule + ":" + class.
func (s *sim) fail(rule, class, f string, a ...interface{}) {
	if s.viol != nil {
		return
	}
	sig := rule
	if class != "" {
		sig += ":" + class
	}
	s.viol = &vViol{Sig: sig, Rule: rule, Detail: fmt.Sprintf(f, a...), Case: s.caseIdx}
}

// ------------------------------------------------------------------ fake ClientConn

type simCC struct {
	balancer.ClientConn
	s *sim
}

func (c simCC) NewSubConn(a []resolver.Address, o balancer.NewSubConnOptions) (balancer.SubConn, error) {
	s := c.s
	s.boundary++
	if len(a) == 0 && s.addrs != "" && !s.resolvingEmpty {
		s.emptyAddrCalls++
	}
	if len(a) == 0 || s.failNext > 0 {
		if s.failNext > 0 {
			s.failNext--
		}
		s.newFail++
		s.failRun++
		if s.failRun >= 10000 {
			panic(simSpin{})
		}
		return nil, fmt.Errorf("verif: connection factory failure")
	}
	s.failRun = 0
	sc := &simConn{id: len(s.conns), addrs: simAddrStr(a), addrSet: 1, state: connectivity.Idle, sim: s}
	s.conns = append(s.conns, sc)
	s.newInOp = append(s.newInOp, sc)
	return sc, nil
}
func (c simCC) RemoveSubConn(sc balancer.SubConn) {
	c.s.boundary++
	x, ok := sc.(*simConn)
	if !ok {
		c.s.fail("C03.remove", "foreign", "RemoveSubConn of a foreign object %v", sc)
		return
	}
	x.removed++
	c.s.rmInOp = append(c.s.rmInOp, x)
}
func (c simCC) UpdateState(st balancer.State) {
	s := c.s
	s.boundary++
	p := &simPub{idx: len(s.pubs), state: st.ConnectivityState, picker: st.Picker}
	for _, ch := range s.chans {
		if ch.ready() {
			p.snap = append(p.snap, ch)
		}
	}
	s.pubs = append(s.pubs, p)
	s.pubInOp++
}
func (c simCC) ResolveNow(resolver.ResolveNowOptions) {}
func (c simCC) Target() string                        { return "verif" }

// ------------------------------------------------------------------ shadow helpers

func (s *sim) pool() []*simChan {
	var r []*simChan
	for _, c := range s.chans {
		if c.alive {
			r = append(r, c)
		}
	}
	return r
}

func (s *sim) aggregate() connectivity.State {
	anyC := false
	for _, c := range s.pool() {
		if c.conn.state == connectivity.Ready {
			return connectivity.Ready
		}
		if c.conn.state == connectivity.Connecting {
			anyC = true
		}
	}
	if anyC {
		return connectivity.Connecting
	}
	return connectivity.TransientFailure
}

func (s *sim) anyReady() bool {
	for _, c := range s.pool() {
		if c.ready() {
			return true
		}
	}
	return false
}

func (s *sim) allReady() bool {
	p := s.pool()
	for _, c := range p {
		if !c.ready() {
			return false
		}
	}
	return len(p) > 0
}

func (s *sim) idleOrConnecting() bool {
	for _, c := range s.pool() {
		if c.conn.state == connectivity.Idle || c.conn.state == connectivity.Connecting {
			return true
		}
	}
	return false
}

func (s *sim) begin(op string) {
	verifClock = verifClock.Add(time.Nanosecond)
	s.opCount++
	s.curOp = op
	s.newInOp = nil
	s.rmInOp = nil
	s.pubInOp = 0
	s.newFail = 0
	s.failRun = 0
	s.boundary = 0
}

func (s *sim) newChannel(c *simConn) *simChan {
	ch := &simChan{id: len(s.chans), conn: c, alive: true, t0: verifClock}
	c.ch = ch
	s.chans = append(s.chans, ch)
	s.compVer++
	return ch
}

func (s *sim) chanOf(sc balancer.SubConn) *simChan {
	c, ok := sc.(*simConn)
	if !ok || c == nil || c.ch == nil || c.ch.conn != c {
		return nil
	}
	return c.ch
}

func simChID(c *simChan) string {
	if c == nil {
		return "none"
	}
	return fmt.Sprintf("ch%d", c.id)
}

// window of the detector model, saturating.
func (s *sim) window(k uint32) time.Duration {
	// ms x 2^k milliseconds, saturating at the largest Duration
	const maxMs = uint64((1<<63 - 1) / int64(time.Millisecond))
	if s.ms == 0 {
		return 0
	}
	if k >= 63 || uint64(s.ms) > maxMs>>k {
		return time.Duration(1<<63 - 1)
	}
	return time.Duration(uint64(s.ms)<<k) * time.Millisecond
}

// exec runs f as one operation on the code under test and classifies how it
// ended. It returns the op handle and the await status.
func (s *sim) exec(f func()) (*vOp, string) {
	h := vStartOp(f)
	st := h.await()
	return h, st
}

const simPkg = "grpcgcp."

// handle classifies abnormal endings common to every op. It returns true when
// the op completed normally.
func (s *sim) completed(h *vOp, st string, what string) bool {
	switch st {
	case vDone:
		if h.panicked {
			if _, ok := h.pval.(simSpin); ok {
				s.fail("C06.spin", s.curOp+"/NewSubConn", "%s made 10000 consecutive failing NewSubConn calls (unbounded retry loop)", what)
				s.dead = true
				return false
			}
			site := vPanicSite(h.pstack, simPkg)
			s.fail("C05.panic", vPanicKind(h.pval)+"@"+site, "%s panicked: %v\n%s", what, h.pval, simTrimStack(h.pstack))
			s.dead = true // locks may be left held
			return false
		}
		return true
	case vParked:
		return false
	case vDeadlock:
		s.fail("C06.deadlock", vRepoChain(h.frames, simPkg), "%s blocked forever on a lock (goroutine state %q); chain %s", what, h.state, vRepoChain(h.frames, simPkg))
		s.dead = true
		return false
	default:
		s.fail("C06.stuck", vRepoChain(h.frames, simPkg), "%s is still running after %v without returning, parking or waiting for a lock (state %q): it spins in %s", what, vStuckAfter, h.state, vRepoChain(h.frames, simPkg))
		s.dead = true
		s.stuck = true
		return false
	}
}

func simTrimStack(st string) string {
	lines := strings.Split(st, "\n")
	var keep []string
	for _, l := range lines {
		if strings.Contains(l, "grpcgcp") && !strings.Contains(l, "zz_verif") {
			keep = append(keep, strings.TrimSpace(l))
		}
		if len(keep) >= 12 {
			break
		}
	}
	return strings.Join(keep, " | ")
}

// ------------------------------------------------------------------ invariants after every op

func (s *sim) afterOp() {
	if s.viol != nil || s.dead {
		return
	}
	// settle waiters whose release event has happened
	s.pollWaiters(false)
	if s.viol != nil || s.dead {
		return
	}
	// C06: a waiting round-robin BIND must be parked, not spinning
	for _, w := range s.waiters {
		spinning := true
		for i := 0; i < 1500 && spinning; i++ {
			if w.op.isDone() {
				spinning = false
				break
			}
			st, _ := vGoroutineState(w.op.gid)
			if vIsWaitState(st) || vIsLockState(st) || st == "" {
				spinning = false
			} else {
				time.Sleep(time.Millisecond)
			}
		}
		s.hit("C06.waiter-parked")
		if spinning {
			st, fr := vGoroutineState(w.op.gid)
			s.fail("C06.waiter-spins", vRepoChain(fr, simPkg), "a waiting round-robin BIND pick has been running (state %q) for 1500 consecutive samples over >1.5s instead of being parked: it busy-waits", st)
			s.dead = true
			return
		}
	}
	// C06: no lock left held. RR waiters take a read lock for an instant on
	// their 100ms tick, so retry before concluding.
	locked := true
	tries := 1
	if len(s.waiters) > 0 {
		tries = 200
	}
	for i := 0; i < tries && locked; i++ {
		if s.b.mu.TryLock() {
			s.b.mu.Unlock()
			locked = false
		} else if i+1 < tries {
			time.Sleep(10 * time.Millisecond)
		}
	}
	s.hit("C06.lock-free-after-op")
	if locked {
		if s.prop == "C20" && s.curOp == "resolver-error" && !s.hostile {
			// C20: a resolver error changes neither the pool nor how calls are routed
			s.fail("C20.resolver-error", "lock-left-held", "the balancer's lock is still held after ResolverError returned: no call can be routed any more")
		}
		s.fail("C06.lock-held", s.curOp, "balancer lock still held after %s returned", s.curOp)
		s.dead = true
		return
	}
	for _, p := range s.pubs {
		gp, ok := p.picker.(*gcpPicker)
		if !ok {
			continue
		}
		if gp.mu.TryLock() {
			gp.mu.Unlock()
		} else {
			s.fail("C06.lock-held", s.curOp+"/picker", "picker lock still held after %s returned", s.curOp)
			s.dead = true
			return
		}
	}
	if s.hostile {
		return
	}
	if s.emptyAddrCalls > 0 {
		s.fail("C20.new-addr", "lost-addresses", "during %s the balancer asked for a new connection with an empty address list although the latest resolved list is [%s]", s.curOp, s.addrs)
		return
	}
	// C02 (white-box secondary): active-stream count == harness in-flight.
	for _, ch := range s.chans {
		ref := s.b.scRefs[ch.conn]
		if !ch.alive {
			continue
		}
		if ref == nil {
			continue // decided by C03.pool-size below
		}
		s.hit("C02.count")
		if int(ref.getStreamsCnt()) != ch.inflight {
			cls := "mismatch"
			if ref.getStreamsCnt() < 0 {
				cls = "negative"
			}
			if ch.refreshes > 0 {
				cls += "-after-refresh"
			}
			s.fail("C02.count", cls, "channel %d: balancer counts %d active streams, harness has %d calls in flight", ch.id, ref.getStreamsCnt(), ch.inflight)
		}
	}
	if len(s.b.scRefs) != len(s.pool()) {
		s.fail("C03.pool-size", "", "pool map has %d entries, shadow pool has %d channels", len(s.b.scRefs), len(s.pool()))
	}
	// C04 aggregate
	if len(s.pubs) > 0 && s.hits["C04.missing-publish-deferred"] == 0 {
		s.hit("C04.aggregate")
		if got, want := s.pubs[len(s.pubs)-1].state, s.aggregate(); got != want {
			s.fail("C04.aggregate", fmt.Sprintf("%v-vs-%v", got, want), "last published state %v, pool says %v (op %s)", got, want, s.curOp)
		}
	}
	// C03 bound
	if s.minSize <= s.maxSize && !s.exemptMax {
		s.hit("C03.max")
		if len(s.pool()) > s.maxSize {
			s.fail("C03.max", "", "pool has %d channels > maxSize %d", len(s.pool()), s.maxSize)
		}
	}
	// abstract state for the evidence
	s.out.state(s.absState())
}

func (s *sim) absState() uint64 {
	var parts []string
	for _, ch := range s.pool() {
		b := ch.inflight
		if b > 3 {
			b = 3
		}
		k := ch.k
		if k > 2 {
			k = 2
		}
		parts = append(parts, fmt.Sprintf("%d/%d/%v/%d", ch.conn.state, b, ch.refreshing, k))
	}
	nb, ns := len(s.bind), len(s.stand)
	if nb > 3 {
		nb = 3
	}
	parts = append(parts, fmt.Sprintf("b%d s%d w%d", nb, ns, len(s.waiters)))
	return vHashStrings(parts)
}

// ------------------------------------------------------------------ operations

func (s *sim) resolve(empty bool, cfg *pb.ApiConfig, withCfg bool) {
	s.begin("resolve")
	var addrs []resolver.Address
	if !empty {
		s.addrV++
		addrs = []resolver.Address{{Addr: fmt.Sprintf("v%d", s.addrV)}}
		switch s.rng.Intn(8) {
		case 0:
			// two entries with the same host:port that differ in the server name only
			addrs = append(addrs, resolver.Address{Addr: addrs[0].Addr, ServerName: "alt.example"})
		case 1:
			// an entry of the (deprecated but legal) balancer type next to a backend
			addrs = append(addrs, resolver.Address{Addr: fmt.Sprintf("lb%d", s.addrV), Type: resolver.GRPCLB})
		case 2:
			addrs[0].ServerName = fmt.Sprintf("sn%d.example", s.addrV)
		}
	}
	newAddrs := simAddrStr(addrs)
	s.say("resolve [%s]%s", newAddrs, map[bool]string{true: " +config", false: ""}[withCfg])
	before := map[*simConn]int{}
	for _, ch := range s.pool() {
		before[ch.conn] = ch.conn.connects
	}
	replBefore := map[*simConn]int{}
	for _, ch := range s.chans {
		if ch.repl != nil && (ch.alive || ch.suspended) {
			replBefore[ch.repl] = ch.repl.connects
		}
	}
	poolBefore := len(s.pool())
	if poolBefore == 0 || empty || s.failNext > 0 {
		s.hit("C06.hard-state")
	}
	ccs := balancer.ClientConnState{ResolverState: resolver.State{Addresses: addrs}}
	if withCfg {
		ccs.BalancerConfig = &GCPBalancerConfig{ApiConfig: cfg}
	}
	factoryFailing := s.failNext > 0
	s.resolvingEmpty = empty
	h, st := s.exec(func() { s.b.UpdateClientConnState(ccs) })
	s.resolvingEmpty = false
	s.addrs = newAddrs
	if !s.completed(h, st, "resolver update") {
		if s.viol != nil && !s.hostile && (s.viol.Rule == "C06.deadlock" || s.viol.Rule == "C06.stuck") {
			// a resolver update that never returns also breaks what C03 / C20 promise about its effect
			switch {
			case s.prop == "C03" && !s.resolved && !empty:
				s.viol.Sig, s.viol.Rule = "C03.initial:update-blocked:"+strings.TrimPrefix(s.viol.Sig, "C06."), "C03.initial"
				s.viol.Detail = "the first non-empty resolver update never returned, the pool was not established: " + s.viol.Detail
			case s.prop == "C20":
				s.viol.Sig, s.viol.Rule = "C20.addr:update-blocked:"+strings.TrimPrefix(s.viol.Sig, "C06."), "C20.addr"
				s.viol.Detail = "the resolver update never returned, its addresses did not reach the pool: " + s.viol.Detail
			}
		}
		if st == vParked {
			s.fail("C06.blocked", "resolve", "resolver update parked (state %q) %s", h.state, vRepoChain(h.frames, simPkg))
			s.dead = true
		}
		return
	}
	for _, c := range s.newInOp {
		s.newChannel(c)
	}
	if s.hostile {
		s.afterOp()
		return
	}
	if poolBefore == 0 {
		if !empty && !factoryFailing {
			want := s.minSize
			if want < 1 {
				want = 1
			}
			if !s.resolved {
				s.hit("C03.initial")
				if len(s.pool()) != want {
					s.fail("C03.initial", "", "after the first non-empty resolver update the pool has %d channels, want max(1,minSize)=%d", len(s.pool()), want)
				}
			} else {
				s.hit("C03.recreate")
				if len(s.pool()) < 1 || (s.minSize <= s.maxSize && len(s.pool()) > s.maxSize) {
					s.fail("C03.recreate", "", "emptied pool re-created with %d channels", len(s.pool()))
				}
			}
		}
	} else if len(s.newInOp) > 0 {
		s.fail("C03.add-context", "resolve-nonempty-pool", "resolver update added %d channels to a non-empty pool", len(s.newInOp))
	}
	if !empty {
		s.resolved = true
	}
	for _, ch := range s.pool() {
		s.hit("C20.addr")
		if ch.conn.addrs != s.addrs {
			s.fail("C20.addr", "pool-conn", "after resolver update channel %d conn %v uses [%s], latest is [%s]", ch.id, ch.conn, ch.conn.addrs, s.addrs)
		}
		if prev, ok := before[ch.conn]; ok && ch.conn.connects <= prev {
			s.fail("C20.connect", "pool-conn", "channel %d conn %v was not asked to connect by the resolver update", ch.id, ch.conn)
		}
		if _, ok := before[ch.conn]; !ok && ch.conn.connects == 0 {
			s.fail("C20.connect", "new-conn", "new channel %d conn %v was never asked to connect", ch.id, ch.conn)
		}
	}
	for r, c0 := range replBefore {
		s.hit("C20.replacement-in-flight")
		if r.addrs != s.addrs {
			s.fail("C20.addr", "replacement-in-flight", "after the resolver update the replacement %v of a refresh in flight still has [%s], latest is [%s]", r, r.addrs, s.addrs)
		}
		if r.connects <= c0 {
			s.fail("C20.connect", "replacement-in-flight", "the replacement %v of a refresh in flight was not asked to (re)connect by the resolver update", r)
		}
	}
	if len(s.rmInOp) > 0 {
		s.fail("C03.remove", "resolve", "resolver update removed %v", s.rmInOp)
	}
	s.afterOp()
}

func (s *sim) resolverError() {
	s.begin("resolver-error")
	s.say("resolver error")
	h, st := s.exec(func() { s.b.ResolverError(fmt.Errorf("verif: resolver error")) })
	if !s.completed(h, st, "ResolverError") {
		if s.prop == "C20" && !s.hostile && s.viol != nil && s.viol.Rule == "C05.panic" {
			s.viol.Sig, s.viol.Rule = "C20.resolver-error:"+strings.TrimPrefix(s.viol.Sig, "C05."), "C20.resolver-error"
			s.viol.Detail = "a resolver error must change nothing; " + s.viol.Detail
		}
		if st == vParked {
			s.fail("C06.blocked", "resolver-error", "ResolverError parked")
			s.dead = true
		}
		return
	}
	if !s.hostile {
		s.hit("C20.resolver-error")
		if s.boundary != 0 {
			s.fail("C20.resolver-error", "", "ResolverError caused %d boundary calls (new=%d removed=%d published=%d)", s.boundary, len(s.newInOp), len(s.rmInOp), s.pubInOp)
		}
	}
	for _, c := range s.newInOp {
		s.newChannel(c)
	}
	s.afterOp()
}

func (s *sim) report(c *simConn, st connectivity.State) {
	s.begin("state")
	role := "pool"
	switch {
	case c.fake:
		role = "unknown"
	case c.retired:
		role = "retired"
	case c.replOf != nil:
		role = "replacement"
	case c.ch == nil || !c.ch.alive:
		role = "dead"
	}
	s.say("state %v(%s) %v -> %v", c, role, c.state, st)
	aggBefore := s.aggregate()
	hadPub := len(s.pubs) > 0
	var expectPub, known bool
	var swap *simChan
	var swapOld *simConn
	becameReady := []*simChan{}
	switch {
	case role == "pool":
		known = true
		old := c.state
		c.state = st
		if st == connectivity.Shutdown {
			c.ch.alive = false
			if c.ch.repl != nil {
				c.ch.suspended = true
			}
			s.compVer++
			for _, cl := range s.calls {
				if cl.ch == c.ch {
					cl.orphan = true
				}
			}
		}
		if old == connectivity.Ready && st != connectivity.Ready {
			for k, v := range s.stand {
				if v == c.ch {
					delete(s.stand, k)
				}
			}
		}
		if old != connectivity.Ready && st == connectivity.Ready {
			for k := range s.stand {
				if s.bind[k] == c.ch {
					delete(s.stand, k)
				}
			}
			becameReady = append(becameReady, c.ch)
		}
		expectPub = (old == connectivity.Ready) != (st == connectivity.Ready)
	case role == "replacement" && st == connectivity.Ready && (c.replOf.alive || c.replOf.suspended):
		known = true
		ch := c.replOf
		swap = ch
		oldc := ch.conn
		swapOld = oldc
		oldState := oldc.state
		oldc.ch = nil
		oldc.retired = true
		c.replOf = nil
		c.ch = ch
		ch.conn = c
		ch.repl = nil
		if ch.suspended {
			ch.suspended, ch.alive = false, true
			// a channel torn down by gRPC and taken over again by its pending
			// replacement is outside what the maxSize clause speaks about (the pool
			// may have been re-created in between)
			s.exemptMax = true
			s.compVer++
			s.hit("C07.takeover-after-old-shutdown")
		}
		c.state = connectivity.Ready
		ch.t0 = verifClock
		ch.n = 0
		ch.k++
		ch.refreshes++
		ch.refreshing = false
		if oldState != connectivity.Ready {
			for k := range s.stand {
				if s.bind[k] == ch {
					delete(s.stand, k)
				}
			}
			becameReady = append(becameReady, ch)
		}
		expectPub = oldState != connectivity.Ready
	default:
		// unknown / retired / dead / pending replacement not READY / orphan replacement
		c.state = st
	}
	h, hst := s.exec(func() { s.b.UpdateSubConnState(c, balancer.SubConnState{ConnectivityState: st}) })
	if !s.completed(h, hst, "state report") {
		if hst == vParked {
			s.fail("C06.blocked", "state", "state report parked (state %q) %s", h.state, vRepoChain(h.frames, simPkg))
			s.dead = true
		}
		return
	}
	for _, nc := range s.newInOp {
		s.newChannel(nc)
	}
	if s.hostile {
		s.afterOp()
		return
	}
	aggAfter := s.aggregate()
	tfBoundary := (aggBefore == connectivity.TransientFailure) != (aggAfter == connectivity.TransientFailure)
	if tfBoundary {
		expectPub = true
	}
	if len(s.newInOp) > 0 {
		s.fail("C03.add-context", "state-report", "a state report created %d connection(s)", len(s.newInOp))
	}
	if swap != nil {
		s.hit("C07.swap")
		if s.prop == "C03" {
			for _, r := range s.rmInOp {
				if r != swapOld {
					// C03: the balancer never removes a connection other than the old connection of a completed refresh
					s.fail("C03.remove", "not-the-old-connection", "when the replacement of channel %d reported READY the balancer removed %v, which is not the old connection %v", swap.id, r, swapOld)
				}
			}
		}
		if len(s.rmInOp) != 1 || s.rmInOp[0] != swapOld || swapOld.removed != 1 {
			s.fail("C07.swap-remove", "", "refresh of channel %d completed: removed %v (old conn %v removed %d times), want exactly the old connection once", swap.id, s.rmInOp, swapOld, swapOld.removed)
		}
		s.hit("C20.replacement-addr")
		if swap.conn.addrs != s.addrs {
			s.fail("C20.replacement-addr", "", "replacement %v took over channel %d with addresses [%s], latest resolved is [%s]", swap.conn, swap.id, swap.conn.addrs, s.addrs)
		}
	} else if len(s.rmInOp) > 0 {
		s.fail("C03.remove", "state-report", "RemoveSubConn %v outside a completed refresh", s.rmInOp)
	}
	if !known {
		s.hit("C04.ignored-report")
		if s.pubInOp > 0 {
			s.fail("C04.spurious-publish", role, "report %v for %v (%s, not a pool connection) published a new state", st, c, role)
		}
		if s.boundary > 0 && role != "dead" {
			s.fail("C04.ignored-report", role, "report %v for %v (%s) caused %d boundary calls", st, c, role, s.boundary)
		}
	} else if hadPub || s.pubInOp > 0 {
		s.hit("C04.publish")
		if expectPub {
			if tfBoundary {
				s.hit("C04.publish-tf-boundary")
			}
			if s.pubInOp == 0 {
				cls := "readiness"
				if tfBoundary {
					cls = "tf-boundary"
				}
				if swap != nil && (s.prop == "C01" || s.prop == "C08") {
					// judged by the keyed-pick rules below: the most recently published
					// picker must still route bound keys correctly
					s.hit("C04.missing-publish-deferred")
					goto afterPublishRule
				}
				if swap != nil && s.prop == "C07" {
					// the same observation under C07's wording: the replacement did not take over a channel whose old connection had left READY
					s.fail("C07.swap-takeover", cls, "replacement %v became READY for channel %d whose old connection was not READY, but no new picker/state was published: the replacement did not take over the channel", c, swap.id)
				}
				s.fail("C04.missing-publish", cls, "state %v -> %v, aggregate %v -> %v: nothing published", c, st, aggBefore, aggAfter)
			}
		}
	afterPublishRule:
		if swap != nil && !expectPub && s.pubInOp > 0 {
			// completing a refresh whose old connection was READY must not perturb the published state
			if s.pubs[len(s.pubs)-1].state != aggAfter {
				s.fail("C04.swap-perturbs", "", "refresh completion changed published state to %v", s.pubs[len(s.pubs)-1].state)
			}
		}
	}
	// release RR waiters of channels that became READY
	for _, ch := range becameReady {
		s.releaseWaiters(ch)
	}
	s.afterOp()
}

// pick result classification
type simPick struct {
	ch  *simChan
	err error
}

func (s *sim) mkCtx(withGcp bool, req interface{}, hasDl bool, dl time.Duration) *simCtx {
	ctx := &simCtx{hasDl: hasDl, dl: verifClock.Add(dl), doneCh: make(chan struct{})}
	if withGcp {
		ctx.gc = &gcpContext{reqMsg: req, replyMsg: &simMsg{}}
	}
	if hasDl && !ctx.dl.After(verifClock) {
		ctx.end(context.DeadlineExceeded)
	}
	return ctx
}

// start issues a pick. method is the full method name; key the key placed in
// the request (per the method's path).
func (s *sim) start(method string, key string, p *simPub, withGcp bool, hasDl bool, dl time.Duration, reqOverride interface{}, useOverride bool) {
	s.begin("pick")
	isCur := p.idx == len(s.pubs)-1
	m, configured := s.methods[method]
	var req interface{}
	switch m.path {
	case "key":
		req = &simMsg{Key: key}
	case "keys":
		if key == "" && !s.hostile {
			key = simKeys[0]
		}
		if key == "" {
			req = &simMsg{}
		} else {
			req = &simMsg{Keys: []string{key, key + "-2"}}
		}
	case "nested.key":
		req = &simMsg{Nested: &simNested{Key: key}}
	default:
		req = &simMsg{Key: key}
	}
	if useOverride {
		req = reqOverride
	}
	ctx := s.mkCtx(withGcp, req, hasDl, dl)
	s.say("pick %s key=%q picker=#%d(cur=%v,%v) gcpctx=%v dl=%v/%v", method, key, p.idx, isCur, p.state, withGcp, hasDl, dl)

	inflightBefore := map[*simChan]int{}
	for _, c := range s.chans {
		inflightBefore[c] = c.inflight
	}
	poolBefore := len(s.pool())
	idleOrConn := s.idleOrConnecting()
	kind := "plain"
	if configured {
		kind = m.cmd
	}
	rrBind := s.rr && kind == "bind"

	var pr balancer.PickResult
	var err error
	h, st := s.exec(func() { pr, err = p.picker.Pick(balancer.PickInfo{FullMethodName: method, Ctx: ctx}) })
	if st == vParked {
		// only a round-robin BIND may wait, and only for its channel
		// (in hostile mode the shadow's snapshot of the picker is not reliable)
		if !rrBind || (!s.hostile && (p.state == connectivity.TransientFailure || len(p.snap) == 0)) {
			s.fail("C06.blocked", "pick", "pick %s parked (state %q) %s", method, h.state, vRepoChain(h.frames, simPkg))
			s.dead = true
			return
		}
		s.hit("C09.rr-wait")
		s.hit("C06.hard-state")
		exp := s.rrExpect()
		if !s.hostile {
			if exp != nil && exp.ready() {
				s.fail("C09.needless-wait", "", "round-robin BIND waits although its channel ch%d is READY", exp.id)
			}
			if exp == nil && s.allReady() {
				s.fail("C09.needless-wait", "all-ready", "round-robin BIND waits although every channel is READY")
			}
		}
		s.lastRR, s.rrVer = exp, s.compVer
		w := &simWaiter{op: h, ctx: ctx, exp: exp, res: &pr, err: &err, kind: method, since: s.opCount}
		s.waiters = append(s.waiters, w)
		s.say("  -> waiting (expected %s)", simChID(exp))
		s.afterOp()
		return
	}
	if !s.completed(h, st, "pick "+method) {
		if rrBind && !s.hostile && s.prop == "C09" && s.viol != nil && s.viol.Rule == "C05.panic" {
			// C09: a round-robin BIND call was not assigned to any channel
			v := s.viol
			v.Detail = "a round-robin BIND call panicked instead of being assigned to its channel: " + v.Detail
			v.Sig = "C09.rr-unassigned:" + strings.TrimPrefix(v.Sig, "C05.")
			v.Rule = "C09.rr-unassigned"
		}
		return
	}
	if useOverride {
		s.hit("C05.malformed-handled")
	}
	var ch *simChan
	if err == nil {
		ch = s.chanOf(pr.SubConn)
		if ch == nil {
			if s.hostile {
				// e.g. a resurrected channel: bookkeeping is off in hostile mode
				s.say("  -> %v (not tracked)", pr.SubConn)
				s.afterOp()
				return
			}
			if c, ok := pr.SubConn.(*simConn); ok && c.replOf != nil && s.prop == "C07" {
				s.fail("C07.early-takeover", "", "a call was placed on %v, the pending replacement of channel %d, before it became READY: the old connection must keep serving until then", c, c.replOf.id)
				return
			}
			s.fail("C02.unknown-conn", "", "pick returned %v which is not the current connection of any channel", pr.SubConn)
			return
		}
		if pr.Done == nil {
			s.fail("C02.no-done", "", "pick placed a call without completion callback")
			return
		}
		ch.inflight++
		s.nCall++
		callKey := key
		if !withGcp || useOverride {
			callKey = ""
		}
		s.calls = append(s.calls, &simCall{id: s.nCall, ch: ch, kind: kind, method: method, key: callKey, start: verifClock, ctx: ctx, done: pr.Done, orphan: !ch.alive, stalePk: !isCur})
		s.say("  -> ch%d (%v)", ch.id, pr.SubConn)
	} else {
		s.say("  -> err %v", err)
	}
	for _, c := range s.newInOp {
		nch := s.newChannel(c)
		if !s.hostile {
			s.hit("C20.new-addr")
			if c.addrs != s.addrs {
				s.fail("C20.new-addr", "growth", "channel %d created by growth with [%s], latest resolved is [%s]", nch.id, c.addrs, s.addrs)
			}
			if c.connects == 0 {
				s.fail("C20.connect", "growth", "channel %d created by growth was never asked to connect", nch.id)
			}
		}
	}
	if s.hostile {
		s.afterOp()
		return
	}
	if len(s.rmInOp) > 0 {
		s.fail("C03.remove", "pick", "a pick removed %v", s.rmInOp)
	}
	// C04 picker rule
	s.hit("C04.tf-picker")
	if (p.state == connectivity.TransientFailure) != (err == balancer.ErrTransientFailure) {
		s.fail("C04.tf-picker", fmt.Sprintf("%v", p.state), "picker published with %v returned err=%v", p.state, err)
	}
	if p.state == connectivity.TransientFailure {
		if kk := (kind == "bound" || kind == "unbind") && withGcp && key != "" && !useOverride; kk && isCur {
			if home, isBound := s.bind[key]; isBound && home.ready() {
				s.hit("C01.home-ready-cur")
				s.fail("C01.home-ready", "cur-tf-picker", "key %q bound to ch%d (READY) but the most recently published picker fails every call with %v", key, home.id, err)
			}
		}
		s.afterOp()
		return
	}
	if useOverride {
		// malformed request: an error or an unkeyed placement; only generic rules
		s.afterOp()
		return
	}
	if rrBind {
		s.rrDone(p, ch, err, ctx)
		s.afterOp()
		return
	}
	keyed := (kind == "bound" || kind == "unbind") && withGcp && key != ""
	home, isBound := s.bind[key]
	if keyed && isBound {
		sat := true
		for _, c := range s.pool() {
			if c.ready() && inflightBefore[c] < s.wm {
				sat = false
			}
		}
		s.keyedRules(p, isCur, key, home, ch, err, sat)
		if len(s.newInOp)+s.newFail > 0 {
			s.fail("C03.add-context", "keyed-pick", "a pick for bound key %q created a connection", key)
		}
		s.afterOp()
		return
	}
	// unkeyed rule (plain, unknown key, BIND under non-RR, BOUND/UNBIND without interceptor context)
	if len(p.snap) == 0 {
		s.hit("C02.empty-snap")
		if err != balancer.ErrNoSubConnAvailable {
			s.fail("C02.empty-snap", "", "picker with no READY channel: got %s err=%v", simChID(ch), err)
		}
		s.afterOp()
		return
	}
	mn := inflightBefore[p.snap[0]]
	for _, c := range p.snap {
		if inflightBefore[c] < mn {
			mn = inflightBefore[c]
		}
	}
	inSnap := func(c *simChan) bool {
		for _, x := range p.snap {
			if x == c {
				return true
			}
		}
		return false
	}
	attempts := len(s.newInOp) + s.newFail
	cls := "cur"
	if !isCur {
		cls = "stale"
	}
	switch {
	case mn < s.wm:
		s.hit("C02.least-loaded")
		if len(p.snap) > 1 {
			s.hit("C02.least-loaded-multi")
		}
		if attempts > 0 && s.prop == "C03" {
			s.fail("C03.growth-unsaturated", "", "pool grew although a READY channel has %d < watermark %d streams", mn, s.wm)
		}
		if (ch == nil || !inSnap(ch) || inflightBefore[ch] != mn) && s.prop == "C01" && keyed && s.unbound[key] {
			// C01: after a successful UNBIND the key is routed like an unknown key
			s.fail("C01.after-unbind", cls, "key %q was unbound by a successful UNBIND, a later call carrying it must be routed like an unknown key (least-loaded READY channel, min in-flight %d): got %s (in-flight %d) err=%v", key, mn, simChID(ch), inflightBefore[ch], err)
		}
		if ch == nil || !inSnap(ch) || inflightBefore[ch] != mn {
			s.fail("C02.least-loaded", cls, "min in-flight over the picker's channels is %d: got %s (in-flight %d) err=%v", mn, simChID(ch), inflightBefore[ch], err)
		}
		if attempts > 0 {
			s.fail("C03.growth-unsaturated", "", "pool grew although a READY channel has %d < watermark %d streams", mn, s.wm)
		}
	case poolBefore < s.maxSize:
		s.hit("C03.growth")
		if ch != nil || err != balancer.ErrNoSubConnAvailable {
			s.fail("C03.growth-wait", cls, "saturated pool (%d < max %d): call must wait, got %s err=%v", poolBefore, s.maxSize, simChID(ch), err)
		}
		if idleOrConn {
			s.hit("C03.growth-blocked-by-connecting")
			if attempts > 0 {
				s.fail("C03.growth-while-connecting", "", "pool grew while a channel is idle/connecting")
			}
		} else {
			s.hit("C03.growth-attempt")
			if attempts != 1 {
				s.fail("C03.growth-expected", "", "saturated pool below max with nothing connecting: expected one NewSubConn, saw %d", attempts)
			}
		}
	default:
		s.hit("C02.at-max")
		if ch == nil && s.prop == "C03" {
			// C03's wording: at maxSize calls are placed even above the watermark
			s.fail("C03.at-max-placed", cls, "pool at maxSize=%d (every READY channel at/above the watermark): the call must be placed on the least-loaded channel, got err=%v", s.maxSize, err)
		}
		if ch == nil || !inSnap(ch) || inflightBefore[ch] != mn {
			s.fail("C02.at-max", cls, "pool at max, min in-flight %d: got %s err=%v", mn, simChID(ch), err)
		}
		if attempts > 0 {
			s.fail("C03.growth-at-max", "", "pool grew at maxSize")
		}
	}
	s.afterOp()
}

func (s *sim) keyedRules(p *simPub, isCur bool, key string, home *simChan, ch *simChan, err error, sat bool) {
	after := ""
	if home.refreshes > 0 {
		after = "after-refresh"
	}
	if home.ready() {
		s.hit("C01.home-ready")
		if after != "" {
			s.hit("C01.home-ready:after-refresh")
		}
		if isCur {
			s.hit("C01.home-ready-cur")
			if ch != home && s.prop == "C08" && s.fallback && s.stoodIn[key] {
				// C08: from the moment the home channel is READY again every call for the key
				// goes back home; fallback never changes which channel the key is bound to
				s.fail("C08.return-home", after, "key %q had a stand-in while its home ch%d was down; the home is READY again but the current picker gave %s err=%v", key, home.id, simChID(ch), err)
			}
			if ch != home {
				s.fail("C01.home-ready", "cur"+after, "key %q bound to ch%d (READY) but the current picker gave %s err=%v", key, home.id, simChID(ch), err)
			}
		} else if ch != nil && ch != home {
			s.fail("C01.other-channel", "stale"+after, "key %q bound to ch%d (READY) placed on ch%d by a stale picker", key, home.id, ch.id)
		}
		return
	}
	if !s.fallback {
		s.hit("C01.home-down-wait")
		if ch != nil {
			s.fail("C01.wait", "placed", "key %q home ch%d not READY, fallback off: placed on ch%d", key, home.id, ch.id)
		} else if len(p.snap) > 0 && err != balancer.ErrNoSubConnAvailable {
			s.fail("C01.wait", "error", "key %q home ch%d not READY, fallback off: err=%v, want the wait signal", key, home.id, err)
		}
		return
	}
	// fallback enabled
	if isCur {
		s.hit("C08.fallback")
		if s.anyReady() {
			s.hit("C08.place")
			if sat {
				s.hit("C08.place-saturated")
				s.hit("C06.hard-state")
			}
			if ch == nil {
				s.fail("C08.place", map[bool]string{true: "saturated", false: ""}[sat], "key %q home ch%d down, a READY channel exists, but the call was not placed: %v", key, home.id, err)
			} else if !ch.ready() {
				s.fail("C08.ready", "", "stand-in ch%d is not READY", ch.id)
			}
		}
		if si, ok := s.stand[key]; ok && si.ready() {
			s.hit("C08.sticky")
			if si.k > 0 {
				s.hit("C08.sticky-after-refresh")
			}
			if ch != si {
				s.fail("C08.sticky", map[bool]string{true: "after-refresh", false: ""}[si.refreshes > 0], "key %q stand-in ch%d still READY (home ch%d still down) but got %s", key, si.id, home.id, simChID(ch))
			}
		}
	} else if ch != nil && ch != home && !ch.ready() {
		s.hit("C08.stale")
	}
	if ch != nil {
		s.stand[key] = ch
		if s.stoodIn == nil {
			s.stoodIn = map[string]bool{}
		}
		s.stoodIn[key] = true
	}
}

// ---- round robin

func (s *sim) rrExpect() *simChan {
	if s.lastRR == nil || s.rrVer != s.compVer {
		return nil
	}
	p := s.pool()
	for i, c := range p {
		if c == s.lastRR {
			return p[(i+1)%len(p)]
		}
	}
	return nil
}

func (s *sim) rrDone(p *simPub, ch *simChan, err error, ctx *simCtx) {
	if len(p.snap) == 0 {
		s.hit("C09.empty-snap")
		if err != balancer.ErrNoSubConnAvailable {
			s.fail("C09.empty-snap", "", "RR BIND on a picker without READY channels: %s err=%v", simChID(ch), err)
		}
		return
	}
	exp := s.rrExpect()
	s.hit("C09.rr-pick")
	if ch == nil {
		s.fail("C09.rr-error", "", "round-robin BIND pick failed: %v", err)
		return
	}
	if exp != nil {
		s.hit("C09.successor")
		if ch != exp {
			s.fail("C09.successor", "", "round-robin BIND went to ch%d, successor of ch%d in creation order is ch%d", ch.id, s.lastRR.id, exp.id)
		}
	}
	if !ctx.ended {
		s.hit("C09.ready-on-return")
		if !ch.ready() {
			s.fail("C09.not-ready", "", "round-robin BIND returned ch%d which is not READY while its context is live", ch.id)
		}
	}
	s.lastRR, s.rrVer = ch, s.compVer
}

// releaseWaiters is called after an event that must release the waiters
// expected on ch.
func (s *sim) releaseWaiters(ch *simChan) {
	var keep []*simWaiter
	for _, w := range s.waiters {
		if w.exp != ch {
			keep = append(keep, w)
			continue
		}
		s.finishWaiter(w, "channel READY")
	}
	s.waiters = keep
}

// finishWaiter awaits a waiter after its release event and applies the rules.
func (s *sim) finishWaiter(w *simWaiter, why string) {
	if s.viol != nil {
		return
	}
	st := w.op.awaitDone(2 * time.Second)
	s.hit("C09.waiter-released")
	if st != vDone {
		if s.prop == "C06" {
			// C06: a round-robin BIND pick returns promptly once its channel is READY or its context ended
			s.fail("C06.waiter-not-released", strings.Replace(why, " ", "-", -1), "round-robin BIND still waiting (%s, goroutine %q) after: %s", st, w.op.state, why)
		}
		s.fail("C09.waiter-stuck", strings.Replace(why, " ", "-", -1), "round-robin BIND still waiting (%s, goroutine %q) after: %s", st, w.op.state, why)
		s.dead = true
		return
	}
	if w.op.panicked {
		s.fail("C05.panic", vPanicKind(w.op.pval)+"@"+vPanicSite(w.op.pstack, simPkg), "waiting pick panicked: %v", w.op.pval)
		s.dead = true
		return
	}
	if *w.err != nil {
		s.say("  waiter(%s) -> err %v", w.kind, *w.err)
		if !s.hostile {
			s.fail("C09.rr-error", "waiter", "round-robin BIND waiter failed: %v", *w.err)
		}
		return
	}
	ch := s.chanOf(w.res.SubConn)
	s.say("  waiter(%s) -> %s after %s", w.kind, simChID(ch), why)
	if ch == nil {
		if !s.hostile {
			s.fail("C02.unknown-conn", "waiter", "waiter returned %v which is not the current connection of any channel", w.res.SubConn)
		}
		return
	}
	ch.inflight++
	s.nCall++
	s.calls = append(s.calls, &simCall{id: s.nCall, ch: ch, kind: "bind", method: w.kind, start: verifClock, ctx: w.ctx, done: w.res.Done, orphan: !ch.alive})
	if s.hostile {
		return
	}
	if w.exp != nil && ch != w.exp {
		s.fail("C09.successor", "waiter", "round-robin BIND waiter got ch%d, expected ch%d", ch.id, w.exp.id)
	}
	if !w.ctx.ended && !ch.ready() {
		s.fail("C09.not-ready", "waiter", "round-robin BIND waiter returned ch%d which is not READY while its context is live", ch.id)
	}
}

// pollWaiters: waiters that completed on their own (hostile mode, unknown
// expectation) are collected; final=true ends every context and demands return.
func (s *sim) pollWaiters(final bool) {
	var keep []*simWaiter
	for _, w := range s.waiters {
		if final {
			w.ctx.end(context.Canceled)
			s.finishWaiter(w, "context cancelled")
			continue
		}
		if w.op.isDone() {
			if !s.hostile && !w.ctx.ended {
				// returned without a release event the harness knows of
				if w.exp != nil && !w.exp.ready() {
					s.fail("C09.early-return", "", "round-robin BIND returned before ch%d was READY and before its context ended", w.exp.id)
				}
			}
			s.finishWaiter(w, "spontaneous")
			continue
		}
		keep = append(keep, w)
	}
	s.waiters = keep
}

func (s *sim) endWaiter(i int, err error) {
	s.begin("ctx-end")
	w := s.waiters[i]
	s.waiters = append(s.waiters[:i], s.waiters[i+1:]...)
	s.say("end context of waiter (%v)", err)
	w.ctx.end(err)
	s.hit("C09.ctx-end")
	s.finishWaiter(w, "context ended")
	s.afterOp()
}

// ---- completions

var simDeadlineErr = status.Error(codes.DeadlineExceeded, context.DeadlineExceeded.Error())

func (s *sim) finish(i int, outcome string, replyKeys []string) {
	c := s.calls[i]
	s.calls = append(s.calls[:i], s.calls[i+1:]...)
	s.begin("done")
	s.say("done call%d ch%d %s %s reply=%q", c.id, c.ch.id, c.kind, outcome, replyKeys)
	var err error
	switch outcome {
	case "ok":
	case "err":
		err = status.Error(codes.Unavailable, "x")
	case "de":
		err = simDeadlineErr
	case "srvde":
		err = status.Error(codes.DeadlineExceeded, "server says so")
	case "cancel":
		err = status.Error(codes.Canceled, "context canceled")
	}
	if c.ctx.gc != nil && s.hostile && s.rng.Intn(12) == 0 {
		c.ctx.gc.replyMsg = []interface{}{&simEmbMsg{}, nil, (*simMsg)(nil), "str", &simEmbMsg{simEmbInner: &simEmbInner{Key: "k1"}}}[s.rng.Intn(5)]
	} else if c.ctx.gc != nil {
		switch len(replyKeys) {
		case 0:
			c.ctx.gc.replyMsg = &simMsg{}
		case 1:
			c.ctx.gc.replyMsg = &simMsg{Key: replyKeys[0], Keys: replyKeys, Nested: &simNested{Key: replyKeys[0]}}
		default:
			c.ctx.gc.replyMsg = &simMsg{Key: replyKeys[0], Keys: replyKeys, Nested: &simNested{Key: replyKeys[0]}}
		}
	}
	ch := c.ch
	ch.inflight--
	// detector model
	expect := false
	if s.det && ch.alive {
		t := verifClock
		clientDE := outcome == "de" && c.ctx.hasDl && !c.ctx.dl.After(t)
		if !clientDE {
			ch.t0 = t
			ch.n = 0
			ch.k = 0
		} else if c.start.Before(ch.t0) {
			s.hit("C07.started-before-last-response")
		} else {
			ch.n++
			win := s.window(ch.k)
			if ch.n >= s.ucalls && t.Sub(ch.t0) > win && !ch.refreshing {
				expect = true
			}
			if ch.n >= s.ucalls && !ch.refreshing {
				d := t.Sub(ch.t0) - win
				if d >= -time.Nanosecond && d <= time.Nanosecond {
					s.hit("C07.window-boundary")
				}
				if ch.k > 0 {
					s.hit("C07.window-doubled")
				}
			}
			if ch.n >= s.ucalls && t.Sub(ch.t0) > win && ch.refreshing {
				s.hit("C07.already-refreshing")
			}
		}
	}
	failing := s.failNext > 0 || s.addrs == ""
	h, st := s.exec(func() { c.done(balancer.DoneInfo{Err: err}) })
	if !s.completed(h, st, "completion callback") {
		if st == vParked {
			s.fail("C06.blocked", "done", "completion callback parked (state %q) %s", h.state, vRepoChain(h.frames, simPkg))
			s.dead = true
		}
		return
	}
	attempts := len(s.newInOp) + s.newFail
	if len(s.newInOp) >= 1 && ch.alive && ch.repl != nil && s.prop == "C03" && !s.hostile {
		// C03: a refresh may hold ONE extra connection per refreshing channel
		s.fail("C03.refresh-extra", "", "channel %d already has a pending replacement (%v) and a completion created another connection (%v): more than one extra connection for a refreshing channel", ch.id, ch.repl, s.newInOp[0])
	}
	if len(s.newInOp) == 1 && ch.alive {
		r := s.newInOp[0]
		r.replOf = ch
		ch.repl = r
		ch.refreshing = true
	} else {
		for _, nc := range s.newInOp {
			// more than one, or for a dead channel: track as channel-less orphan
			nc.fake = s.hostile
			if !s.hostile {
				s.fail("C07.multiple-replacements", "", "completion created %d connections", len(s.newInOp))
			}
		}
	}
	if s.hostile {
		if len(s.newInOp) == 1 && !ch.alive {
			s.newInOp[0].fake = true
		}
		s.afterOp()
		return
	}
	if !ch.alive {
		if attempts != 0 {
			s.fail("C07.refresh-dead-channel", "", "completion on a dead channel created a connection")
		}
	} else if !s.det {
		s.hit("C07.disabled")
		if attempts != 0 {
			s.fail("C07.disabled", "", "detection disabled but a completion attempted to create a connection")
		}
	} else {
		s.hit("C07.rule")
		if expect {
			s.hit("C07.rule-refresh")
			if failing {
				s.hit("C07.refresh-attempt-failed")
			}
		}
		ext := ""
		if kk := minU32(ch.k, 31); uint64(s.ms)<<kk >= 1<<32 || ch.k >= 32 {
			ext = ":extreme-arith"
		}
		if expect && attempts != 1 {
			s.fail("C07.missing-refresh", fmt.Sprintf("k%d", minU32(ch.k, 3))+ext, "expected a refresh of ch%d (DE calls=%d/%d, k=%d, since last response %v > window %v), saw %d NewSubConn", ch.id, ch.n, s.ucalls, ch.k, verifClock.Sub(ch.t0), s.window(ch.k), attempts)
		}
		if !expect && attempts != 0 {
			why := "rule"
			switch {
			case outcome != "de":
				why = "not-client-de"
			case ch.refreshing && len(s.newInOp) == 0:
				why = "already-refreshing"
			case ch.n < s.ucalls:
				why = "too-few-calls"
			case !(verifClock.Sub(ch.t0) > s.window(ch.k)):
				why = "inside-window"
			}
			if len(s.newInOp) == 1 {
				// undo the optimistic bookkeeping for the message
			}
			s.fail("C07.unexpected-refresh", why+ext, "unexpected refresh attempt on ch%d (outcome %s, DE calls=%d/%d, k=%d, since last response %v, window %v)", ch.id, outcome, ch.n, s.ucalls, ch.k, verifClock.Sub(ch.t0), s.window(ch.k))
		}
		if len(s.newInOp) == 1 {
			r := s.newInOp[0]
			s.hit("C20.new-addr")
			if r.addrs != s.addrs {
				s.fail("C20.new-addr", "replacement", "replacement created with [%s], latest resolved is [%s]", r.addrs, s.addrs)
			}
			if r.connects == 0 {
				s.fail("C20.connect", "replacement", "replacement %v was never asked to connect", r)
			}
		}
	}
	if len(s.rmInOp) > 0 {
		s.fail("C03.remove", "done", "a completion removed %v", s.rmInOp)
	}
	if s.pubInOp > 0 {
		s.fail("C04.spurious-publish", "done", "a completion published a state")
	}
	// bindings
	if outcome == "ok" && c.ctx.gc != nil {
		switch c.kind {
		case "bind":
			if ch.alive {
				for _, k := range s.replyKeysFor(c, replyKeys) {
					if _, ok := s.bind[k]; !ok {
						s.bind[k] = ch
						delete(s.unbound, k)
						s.hit("C01.bind")
					} else {
						s.hit("C01.rebind-ignored")
					}
				}
			}
		case "unbind":
			if c.key != "" {
				if _, ok := s.bind[c.key]; ok {
					s.hit("C01.unbind")
					if s.unbound == nil {
						s.unbound = map[string]bool{}
					}
					s.unbound[c.key] = true
				}
				delete(s.bind, c.key)
				delete(s.stand, c.key)
			}
		}
	} else if c.kind == "bind" || c.kind == "unbind" {
		s.hit("C01.failed-bind-unbind")
	}
	s.afterOp()
}

// replyKeysFor: keys the BIND method's key path finds in the reply.
func (s *sim) replyKeysFor(c *simCall, replyKeys []string) []string {
	if len(replyKeys) == 0 || c.ctx.gc == nil || s.methods[c.method].path == "" {
		return nil
	}
	if s.methods[c.method].path != "keys" {
		replyKeys = replyKeys[:1]
	}
	// an empty string is "no affinity key": binding it has no observable effect
	var r []string
	for _, k := range replyKeys {
		if k != "" {
			r = append(r, k)
		}
	}
	return r
}

func minU32(a, b uint32) uint32 {
	if a < b {
		return a
	}
	return b
}

// ------------------------------------------------------------------ case generator

// (" k1 " is a key of its own: keys are compared as they are, not normalised)
var simKeys = []string{"k1", "k2", "k3", "k4", " k1 "}

func simMethodTable() (map[string]simMethod, []*pb.MethodConfig) {
	m := map[string]simMethod{
		"/v/bind":      {"bind", "key"},
		"/v/bindalias": {"bind", "key"}, // second name of the /v/bind entry
		"/v/bindmany":  {"bind", "keys"},
		"/v/bound":     {"bound", "key"},
		"/v/boundn":    {"bound", "nested.key"},
		"/v/boundmany": {"bound", "keys"},
		"/v/unbind":    {"unbind", "key"},
		// locators with empty segments (only requested in hostile histories)
		"/v/boundempty": {"bound", ""},
		"/v/bounddot":   {"bound", "nested."},
		"/v/unbinddots": {"unbind", "nested..key"},
		"/v/bindempty":  {"bind", ""},
	}
	cmd := map[string]pb.AffinityConfig_Command{"bind": pb.AffinityConfig_BIND, "bound": pb.AffinityConfig_BOUND, "unbind": pb.AffinityConfig_UNBIND}
	var names []string
	for n := range m {
		names = append(names, n)
	}
	sort.Strings(names)
	var cfg []*pb.MethodConfig
	for _, n := range names {
		if n == "/v/bindalias" {
			continue
		}
		e := &pb.MethodConfig{Name: []string{n}, Affinity: &pb.AffinityConfig{Command: cmd[m[n].cmd], AffinityKey: m[n].path}}
		if n == "/v/bind" {
			// one entry, two method names
			e.Name = append(e.Name, "/v/bindalias")
		}
		cfg = append(cfg, e)
	}
	return m, cfg
}

// bias sets per property: which features a history of that property's check
// must exercise more often.
func simBias(prop string, rng *vRand) map[string]bool {
	b := map[string]bool{}
	pick := func(name string, pct int) {
		if rng.Chance(pct) {
			b[name] = true
		}
	}
	switch prop {
	case "C01":
		pick("refresh", 60)
		pick("keys", 100)
		pick("stale", 40)
		pick("homedown", 50)
		pick("nofallback", 40)
		pick("rebind-macro", 35)
		pick("shutdown", 30)
		pick("orphan-refresh", 25)
		pick("rr", 15)
	case "C02":
		pick("load", 100)
		pick("stale", 50)
		pick("refresh", 40)
		pick("shutdown", 25)
		pick("rr", 15)
	case "C03":
		pick("saturate", 100)
		pick("stale", 50)
		pick("factoryfail", 30)
		pick("emptyresolve", 35)
		pick("shutdown", 30)
		pick("refresh", 30)
		pick("orphan-refresh", 25)
	case "C04":
		pick("states", 100)
		pick("shutdown", 50)
		pick("refresh", 50)
		pick("weird-reports", 80)
		pick("orphan-refresh", 35)
	case "C05":
		pick("hostile", 85)
		pick("refresh", 60)
		pick("keys", 70)
		pick("stale", 60)
		pick("shutdown", 60)
		pick("factoryfail", 50)
		pick("fallback", 60)
		pick("rr", 30)
		pick("saturate", 50)
	case "C06":
		pick("hostile", 50)
		pick("rr", 50)
		pick("saturate", 60)
		pick("fallback", 70)
		pick("keys", 70)
		pick("homedown", 60)
		pick("factoryfail", 50)
		pick("emptyresolve", 50)
		pick("shutdown", 40)
		pick("stale", 50)
		pick("refresh", 40)
	case "C07":
		pick("extreme", 12)
		pick("refresh", 88)
		pick("orphan-refresh", 15)
		pick("factoryfail", 30)
		pick("keys", 40)
		pick("states", 30)
		pick("rr", 10)
	case "C08":
		pick("fallback", 100)
		pick("keys", 100)
		pick("homedown", 100)
		pick("saturate", 50)
		pick("refresh", 50)
		pick("stale", 30)
		pick("rebind-macro", 30)
		pick("shutdown", 25)
		pick("orphan-refresh", 30)
	case "C09":
		pick("rr", 100)
		pick("keys", 50)
		pick("refresh", 40)
		pick("load", 50)
		pick("states", 50)
	case "C20":
		pick("resolve", 100)
		pick("refresh", 70)
		pick("orphan-refresh", 40)
		pick("emptyresolve", 30)
		pick("saturate", 50)
		pick("shutdown", 25)
		pick("factoryfail", 20)
	default:
		for _, n := range []string{"refresh", "keys", "stale", "homedown", "saturate", "states", "rr", "fallback", "resolve"} {
			pick(n, 40)
		}
	}
	return b
}

func simRunCase(env vEnv, out *vOut, idx int64) *sim {
	rng := vNewRand(env.Seed, "poolsim/"+env.Prop, idx)
	verifClockOn = true
	verifClock = time.Unix(1000000, 0)
	s := &sim{rng: rng, out: out, prop: env.Prop, bind: map[string]*simChan{}, stand: map[string]*simChan{}, caseIdx: idx, hits: map[string]int64{}}
	s.bias = simBias(env.Prop, rng)
	b := s.bias
	s.hostile = b["hostile"]
	cp := &pb.ChannelPoolConfig{
		MinSize: uint32(rng.Intn(4)),
		MaxSize: uint32(rng.Intn(5)),
	}
	if rng.Chance(8) {
		// minSize > maxSize configurations are included (exempt from the C03 bound)
		cp.MinSize, cp.MaxSize = 3, uint32(1+rng.Intn(2))
	} else if cp.MaxSize != 0 && cp.MinSize > cp.MaxSize {
		cp.MinSize = cp.MaxSize
	}
	cp.MaxConcurrentStreamsLowWatermark = []uint32{0, 1, 2, 3, 100}[rng.Intn(5)]
	if b["saturate"] {
		cp.MaxConcurrentStreamsLowWatermark = uint32(1 + rng.Intn(2))
	}
	highWM, bigPool := false, false
	if s.prop == "C03" && !b["hostile"] && rng.Chance(3) {
		// a legal watermark above the default of 100: growth may not start before
		// every READY channel really carries that many streams
		cp.MinSize, cp.MaxSize = 1, uint32(2+rng.Intn(2))
		cp.MaxConcurrentStreamsLowWatermark = []uint32{101, 102, 120, 150}[rng.Intn(4)]
		highWM = true
		delete(b, "rr")
		delete(b, "factoryfail")
	}
	if b["rr"] && !b["hostile"] && rng.Chance(25) {
		// larger pools (even sizes that are not powers of two included)
		n := []uint32{5, 6, 7, 8, 10, 12}[rng.Intn(6)]
		bigPool = true
		cp.MinSize, cp.MaxSize = n, n
		if rng.Chance(30) {
			cp.MinSize = n - 1 - uint32(rng.Intn(2))
		}
	}
	cp.FallbackToReady = rng.Bool()
	if b["fallback"] {
		cp.FallbackToReady = true
	}
	if b["nofallback"] {
		cp.FallbackToReady = false
	}
	if rng.Bool() || b["refresh"] {
		cp.UnresponsiveCalls = uint32(1 + rng.Intn(3))
		cp.UnresponsiveDetectionMs = []uint32{1, 10, 1000}[rng.Intn(3)]
		if rng.Chance(10) && !b["refresh"] {
			// half-configured detection = disabled
			if rng.Bool() {
				cp.UnresponsiveCalls = 0
			} else {
				cp.UnresponsiveDetectionMs = 0
			}
		}
	}
	if b["extreme"] {
		// extreme stratum of C07 (DESIGN §3.2): huge detection windows and long
		// chains of refreshes without a response; one channel so that every call
		// lands on it
		cp.MinSize, cp.MaxSize = 1, 1
		cp.MaxConcurrentStreamsLowWatermark = 100
		cp.UnresponsiveCalls = 1
		cp.UnresponsiveDetectionMs = []uint32{1, 1000, 65536, 100000, 1 << 20, 1<<31 + 5, 1<<32 - 1}[rng.Intn(7)]
		delete(b, "rr")
		delete(b, "factoryfail")
	}
	if b["rr"] {
		cp.BindPickStrategy = pb.ChannelPoolConfig_ROUND_ROBIN
	} else if rng.Chance(30) {
		cp.BindPickStrategy = pb.ChannelPoolConfig_LEAST_ACTIVE_STREAMS
	} else if rng.Chance(6) {
		// an enum value this version does not know (legal on the wire): not ROUND_ROBIN
		cp.BindPickStrategy = pb.ChannelPoolConfig_BindPickStrategy(3)
	}
	s.cp = cp
	s.rr = cp.BindPickStrategy == pb.ChannelPoolConfig_ROUND_ROBIN
	s.minSize, s.maxSize, s.wm = int(cp.MinSize), int(cp.MaxSize), int(cp.MaxConcurrentStreamsLowWatermark)
	if s.minSize == 0 {
		s.minSize = 1
	}
	if s.maxSize == 0 {
		s.maxSize = 4
	}
	if s.wm == 0 {
		s.wm = 100
	}
	s.fallback = cp.FallbackToReady
	s.det = cp.UnresponsiveCalls > 0 && cp.UnresponsiveDetectionMs > 0
	s.ucalls, s.ms = cp.UnresponsiveCalls, cp.UnresponsiveDetectionMs
	var mcfg []*pb.MethodConfig
	s.methods, mcfg = simMethodTable()
	s.say("config min=%d max=%d watermark=%d fallback=%v detection=%v(calls=%d ms=%d) rr=%v hostile=%v bias=%v", cp.MinSize, cp.MaxSize, cp.MaxConcurrentStreamsLowWatermark, s.fallback, s.det, s.ucalls, s.ms, s.rr, s.hostile, simBiasNames(b))
	cfg := &pb.ApiConfig{ChannelPool: cp, Method: mcfg}
	s.b = newBuilder().Build(simCC{s: s}, balancer.BuildOptions{}).(*gcpBalancer)
	if s.rr && !s.hostile && rng.Chance(12) {
		// put the round-robin cursor a few tickets before 2^31 (a signed 32-bit
		// cursor would turn negative there); the unsigned wrap at 2^32 itself is
		// not exercised (DESIGN section 8)
		if simSetCursor(s.b, uint64(1)<<31-uint64(2+rng.Intn(6))) {
			s.hit("C09.cursor-near-2^31")
			s.say("round-robin cursor preset just below 2^31")
		}
	}

	if s.hostile && rng.Chance(10) {
		// calls that arrive before the balancer has a configuration
		s.hit("C05.before-config")
		if rng.Bool() {
			s.say("resolver update with a foreign balancer config (rejected)")
			h, st := s.exec(func() {
				s.b.UpdateClientConnState(balancer.ClientConnState{ResolverState: resolver.State{Addresses: []resolver.Address{{Addr: "v0"}}}, BalancerConfig: simForeignConfig{}})
			})
			if !s.completed(h, st, "resolver update with a foreign config") {
				return s
			}
		}
		s.say("state report for an unknown connection before any configuration")
		h, st := s.exec(func() {
			s.b.UpdateSubConnState(&simConn{id: -1, sim: s, fake: true}, balancer.SubConnState{ConnectivityState: []connectivity.State{connectivity.Ready, connectivity.Idle, connectivity.TransientFailure, connectivity.Shutdown}[rng.Intn(4)]})
		})
		if !s.completed(h, st, "state report before configuration") {
			return s
		}
		s.newInOp, s.rmInOp, s.pubInOp, s.boundary = nil, nil, 0, 0
	}
	if (s.prop == "C20" || s.hostile) && rng.Chance(8) {
		// a resolver error that arrives before the first resolver update (no configuration yet)
		s.hit("C20.resolver-error-before-first-update")
		s.resolverError()
		if s.viol != nil || s.dead {
			return s
		}
	}
	// first resolver update(s)
	if (b["emptyresolve"] || s.hostile) && rng.Chance(40) {
		s.resolve(true, cfg, true)
		if s.viol == nil && !s.dead && rng.Bool() {
			s.resolve(true, nil, false)
		}
		if s.viol == nil && !s.dead {
			s.resolve(false, cfg, rng.Bool())
		}
	} else if b["factoryfail"] && rng.Chance(30) {
		s.failNext = 1 + rng.Intn(3)
		s.say("factory fails next %d", s.failNext)
		s.resolve(false, cfg, true)
		s.failNext = 0
		if s.viol == nil && !s.dead {
			s.resolve(false, nil, false)
		}
	} else {
		s.resolve(false, cfg, true)
	}
	if b["extreme"] && s.viol == nil && !s.dead {
		s.refreshChain(1 + rng.Intn(70))
	}
	if highWM && s.viol == nil && !s.dead {
		s.macroFillToWatermark()
	}
	if bigPool {
		// bring the whole pool up first (otherwise most of the history is spent on it)
		for _, ch := range s.pool() {
			for guard := 0; !ch.ready() && guard < 4 && s.viol == nil && !s.dead; guard++ {
				if ch.conn.state == connectivity.Idle {
					s.report(ch.conn, connectivity.Connecting)
				} else {
					s.report(ch.conn, connectivity.Ready)
				}
			}
		}
		s.hit("C09.big-pool")
	}
	nOps := 30 + rng.Intn(90)
	macroAt := -1
	if b["rebind-macro"] && s.fallback && !s.hostile && !s.rr {
		macroAt = rng.Intn(nOps)
	}
	orphanFrom := -1
	if b["orphan-refresh"] && s.det && !s.hostile && !s.rr {
		orphanFrom = rng.Intn(nOps)
	}
	unbindAcrossFrom := -1
	if s.prop == "C01" && b["shutdown"] && !s.hostile && !s.rr && rng.Chance(30) {
		unbindAcrossFrom = rng.Intn(nOps)
	}
	for i := 0; i < nOps && s.viol == nil && !s.dead; i++ {
		if i == macroAt {
			s.macroRebindAfterFallbackUnbind()
			continue
		}
		if orphanFrom >= 0 && i >= orphanFrom && s.macroShutdownDuringRefresh() {
			orphanFrom = -1
			continue
		}
		if unbindAcrossFrom >= 0 && i >= unbindAcrossFrom && s.macroUnbindAcrossShutdown() {
			unbindAcrossFrom = -1
			continue
		}
		s.step()
	}
	if s.viol == nil && !s.dead {
		s.drain()
	}
	// always end the contexts of parked pickers so their goroutines exit
	for _, w := range s.waiters {
		w.ctx.end(context.Canceled)
	}
	return s
}

func simBiasNames(b map[string]bool) []string {
	var r []string
	for k := range b {
		r = append(r, k)
	}
	sort.Strings(r)
	return r
}

// drain: complete every call and check conservation (C02: counts return to zero).
func (s *sim) drain() {
	s.pollWaiters(true)
	if s.viol != nil || s.dead {
		return
	}
	for len(s.calls) > 0 && s.viol == nil && !s.dead {
		i := s.rng.Intn(len(s.calls))
		out := []string{"ok", "err", "srvde", "cancel"}[s.rng.Intn(4)]
		if s.hostile && s.rng.Bool() {
			out = "de"
		}
		if !s.hostile && s.calls[i].kind == "bind" && !s.calls[i].ch.alive {
			out = "err"
		}
		s.finish(i, out, []string{simKeys[s.rng.Intn(len(simKeys))]})
	}
	if s.viol != nil || s.dead || s.hostile {
		return
	}
	s.hit("C02.quiescent-zero")
	for _, ch := range s.chans {
		if ch.inflight != 0 {
			s.fail("HARNESS.inflight", "", "harness in-flight for ch%d is %d at quiescence", ch.id, ch.inflight)
		}
	}
	for sc, ref := range s.b.scRefs {
		if ref.getStreamsCnt() != 0 {
			s.fail("C02.quiescent-zero", "", "all calls completed but %v still counts %d active streams", sc, ref.getStreamsCnt())
		}
	}
}

// step generates and executes one random operation.
func (s *sim) step() {
	rng := s.rng
	b := s.bias
	w := map[string]int{"resolve": 2, "resolverr": 1, "state": 22, "pick": 34, "done": 24, "advance": 10, "factoryfail": 0, "ctxend": 0, "weird": 0}
	if b["resolve"] {
		w["resolve"], w["resolverr"] = 8, 3
	}
	if b["states"] {
		w["state"] = 40
	}
	if b["weird-reports"] || s.hostile {
		w["weird"] = 8
	}
	if b["load"] || b["saturate"] {
		w["pick"] = 45
	}
	if b["factoryfail"] {
		w["factoryfail"] = 3
	}
	if len(s.waiters) > 0 {
		w["ctxend"] = 5
	}
	if b["refresh"] {
		w["advance"], w["done"] = 14, 30
	}
	if s.hostile {
		w["resolve"] += 3
	}
	names := []string{"resolve", "resolverr", "state", "pick", "done", "advance", "factoryfail", "ctxend", "weird"}
	tot := 0
	for _, n := range names {
		tot += w[n]
	}
	x := rng.Intn(tot)
	op := ""
	for _, n := range names {
		if x < w[n] {
			op = n
			break
		}
		x -= w[n]
	}
	switch op {
	case "resolve":
		empty := (b["emptyresolve"] || s.hostile) && rng.Chance(25)
		s.resolve(empty, nil, false)
	case "resolverr":
		s.resolverError()
	case "state":
		s.stepState()
	case "weird":
		s.stepWeirdReport()
	case "pick":
		s.stepPick()
	case "done":
		s.stepDone()
	case "advance":
		s.stepAdvance()
	case "factoryfail":
		s.failNext = 1 + rng.Intn(2)
		s.say("factory fails next %d", s.failNext)
	case "ctxend":
		if len(s.waiters) > 0 {
			err := context.Canceled
			if rng.Bool() {
				err = context.DeadlineExceeded
			}
			s.endWaiter(rng.Intn(len(s.waiters)), err)
		}
	}
}

func (s *sim) liveConns() []*simConn {
	var r []*simConn
	for _, c := range s.conns {
		if !c.retired && !c.fake && (c.replOf != nil || (c.ch != nil && c.ch.alive)) {
			r = append(r, c)
		}
	}
	return r
}

func (s *sim) stepState() {
	rng := s.rng
	cands := s.liveConns()
	if len(cands) == 0 {
		return
	}
	c := cands[rng.Intn(len(cands))]
	// prefer completing refreshes / bringing things up when biased
	if s.bias["refresh"] && rng.Chance(40) {
		for _, x := range cands {
			if x.replOf != nil {
				c = x
			}
		}
	}
	if s.bias["homedown"] && rng.Chance(40) {
		// choose the home of a bound key
		for _, k := range simKeys {
			if h, ok := s.bind[k]; ok && h.alive && rng.Bool() {
				c = h.conn
				break
			}
		}
	}
	var next connectivity.State
	legal := !s.hostile && !(s.bias["states"] && rng.Chance(30))
	if c.replOf != nil {
		// replacement connection: legal walk towards READY, sometimes via failure
		switch c.state {
		case connectivity.Idle:
			next = connectivity.Connecting
		case connectivity.Connecting:
			next = []connectivity.State{connectivity.Ready, connectivity.Ready, connectivity.TransientFailure}[rng.Intn(3)]
		case connectivity.TransientFailure:
			next = connectivity.Idle
		default:
			next = connectivity.Ready
		}
		if rng.Chance(15) {
			next = connectivity.Ready
		}
		s.report(c, next)
		return
	}
	if legal {
		switch c.state {
		case connectivity.Idle:
			next = connectivity.Connecting
		case connectivity.Connecting:
			next = []connectivity.State{connectivity.Ready, connectivity.Ready, connectivity.Ready, connectivity.TransientFailure}[rng.Intn(4)]
		case connectivity.Ready:
			next = []connectivity.State{connectivity.Idle, connectivity.Idle, connectivity.Ready}[rng.Intn(3)]
			if !s.bias["homedown"] && !s.bias["states"] && rng.Chance(50) {
				return // keep channels up most of the time
			}
		case connectivity.TransientFailure:
			next = connectivity.Idle
		}
	} else {
		next = []connectivity.State{connectivity.Idle, connectivity.Connecting, connectivity.Ready, connectivity.TransientFailure}[rng.Intn(4)]
	}
	if (s.bias["shutdown"] || s.hostile) && rng.Chance(6) {
		// Shutdown of a pool connection (what gRPC delivers at teardown). In exact
		// mode never for a channel with a pending replacement, never under RR.
		if s.hostile || (c.ch.repl == nil && !s.rr) {
			next = connectivity.Shutdown
		}
	}
	s.report(c, next)
}

func (s *sim) stepWeirdReport() {
	rng := s.rng
	st := []connectivity.State{connectivity.Idle, connectivity.Connecting, connectivity.Ready, connectivity.TransientFailure, connectivity.Shutdown}[rng.Intn(5)]
	switch rng.Intn(3) {
	case 0: // unknown connection
		c := &simConn{id: 1000 + len(s.conns), fake: true, sim: s, state: connectivity.Idle}
		s.report(c, st)
	case 1: // retired (swapped-out) or dead connection
		var cands []*simConn
		for _, c := range s.conns {
			if c.retired || (c.ch != nil && !c.ch.alive && c.ch.conn == c) {
				cands = append(cands, c)
			}
		}
		if len(cands) > 0 {
			c := cands[rng.Intn(len(cands))]
			if !s.hostile && !c.retired {
				// a dead pool connection only ever sees Shutdown again
				st = connectivity.Shutdown
			}
			s.report(c, st)
		}
	case 2: // pending replacement, non-READY report (ignored by contract)
		for _, c := range s.conns {
			if c.replOf != nil && !c.retired {
				if st == connectivity.Ready || (st == connectivity.Shutdown && !s.hostile) {
					st = connectivity.TransientFailure
				}
				s.report(c, st)
				return
			}
		}
	}
}

func (s *sim) stepPick() {
	rng := s.rng
	if len(s.pubs) == 0 {
		return
	}
	pi := len(s.pubs) - 1
	stalePct := 12
	if s.bias["stale"] {
		stalePct = 35
	}
	if rng.Chance(stalePct) {
		pi = rng.Intn(len(s.pubs))
	}
	p := s.pubs[pi]
	methods := []string{"/v/plain", "/v/plain", "/v/bind", "/v/bound", "/v/bound", "/v/unbind", "/v/bindmany", "/v/boundn", "/v/bindalias"}
	if s.bias["keys"] {
		methods = append(methods, "/v/bind", "/v/bound", "/v/bound", "/v/bound", "/v/unbind", "/v/boundn")
	}
	if s.bias["load"] || s.bias["saturate"] {
		methods = append(methods, "/v/plain", "/v/plain", "/v/plain", "/v/plain")
	}
	if s.bias["rr"] {
		// (a BIND method is a BIND call whatever its key locator, also an empty one)
		methods = append(methods, "/v/bind", "/v/bind", "/v/bindalias", "/v/bindmany", "/v/bindempty")
	}
	method := methods[rng.Intn(len(methods))]
	key := simKeys[rng.Intn(len(simKeys))]
	if rng.Chance(3) {
		key = ""
	}
	m := s.methods[method]
	if s.rr && m.cmd == "bind" && !s.hostile {
		// exact mode: an RR BIND pick is issued only when its assigned channel can
		// be predicted from the contract (successor known) or every channel is READY
		if s.rrExpect() == nil && !s.allReady() {
			method = "/v/plain"
		}
		if s.pubs[pi].state != connectivity.TransientFailure && len(s.pubs[pi].snap) > 0 && !s.anyAliveInList() {
			method = "/v/plain"
		}
	}
	hasDl := rng.Bool()
	dl := time.Duration(rng.Intn(3)) * time.Millisecond
	if s.bias["refresh"] {
		hasDl = rng.Chance(85)
		if rng.Chance(50) {
			dl = -time.Nanosecond // already expired, like context.WithTimeout(ctx, 0)
		}
	}
	withGcp := !rng.Chance(6)
	if s.hostile && rng.Chance(25) {
		// malformed requests
		var req interface{}
		switch rng.Intn(8) {
		case 0:
			req = nil
		case 1:
			req = (*simMsg)(nil)
		case 2:
			req = &simMsg{} // empty Keys for path "keys", nil Nested for "nested.key"
		case 3:
			req = "a string"
		case 4:
			req = struct{ Key int }{7}
		case 5:
			req = &simMsg{Keys: []string{}}
		case 6:
			req = &simEmbMsg{} // key promoted through a nil embedded pointer
		case 7:
			req = &simEmbMsg{simEmbInner: &simEmbInner{Key: key}}
		}
		ms := []string{"/v/bound", "/v/boundn", "/v/unbind", "/v/bindmany", "/v/bind", "/v/boundmany", "/v/boundempty", "/v/bounddot", "/v/unbinddots", "/v/bindempty"}
		s.start(ms[rng.Intn(len(ms))], key, p, withGcp, hasDl, dl, req, true)
		return
	}
	s.start(method, key, p, withGcp, hasDl, dl, nil, false)
}

func (s *sim) anyAliveInList() bool { return len(s.pool()) > 0 }

func (s *sim) stepDone() {
	rng := s.rng
	if len(s.calls) == 0 {
		return
	}
	i := rng.Intn(len(s.calls))
	outs := []string{"ok", "ok", "ok", "err", "de", "de", "srvde", "cancel"}
	if s.bias["refresh"] {
		outs = append(outs, "de", "de", "de", "de")
		// prefer a call whose DE completion would count
		if rng.Chance(50) {
			for j, c := range s.calls {
				if c.ctx.hasDl && !c.ctx.dl.After(verifClock) && !c.start.Before(c.ch.t0) && c.ch.alive {
					i = j
					break
				}
			}
		}
	}
	out := outs[rng.Intn(len(outs))]
	c := s.calls[i]
	if !s.hostile {
		if c.orphan || !c.ch.alive {
			// contract is silent about completions that would refresh or bind a dead channel
			if out == "de" {
				out = "srvde"
			}
			if c.kind == "bind" && out == "ok" {
				out = "err"
			}
		}
	}
	nk := 1
	keys := []string{simKeys[rng.Intn(len(simKeys))]}
	if c.ctx.gc != nil && s.methods[c.method].path == "keys" {
		nk = 1 + rng.Intn(3)
		for len(keys) < nk {
			keys = append(keys, simKeys[rng.Intn(len(simKeys))])
		}
	}
	if s.hostile && rng.Chance(15) {
		keys = nil
	}
	if len(keys) > 0 && rng.Chance(3) {
		// a BIND reply whose key field is the empty string
		keys[rng.Intn(len(keys))] = ""
		s.hit("C02.empty-reply-key")
	}
	s.finish(i, out, keys)
}

func (s *sim) stepAdvance() {
	rng := s.rng
	dts := []time.Duration{time.Microsecond, time.Millisecond, 2 * time.Millisecond, 10 * time.Millisecond, time.Second, 3 * time.Second}
	dt := dts[rng.Intn(len(dts))]
	if s.det && s.bias["refresh"] && rng.Chance(60) {
		// land exactly on / just before / just after some channel's window
		// boundary as seen by the *next* operation (each op advances 1ns first)
		p := s.pool()
		if len(p) > 0 && s.window(p[0].k) < time.Duration(1)<<62 {
			// (never advance by a saturated window: elapsed times beyond 2^63 ns are
			// not representable and not part of any realistic or extreme stratum)
			ch := p[rng.Intn(len(p))]
			if s.window(ch.k) >= time.Duration(1)<<62 {
				ch = p[0]
			}
			target := ch.t0.Add(s.window(ch.k)).Add(time.Duration(rng.Intn(3)-1) * time.Nanosecond)
			d := target.Sub(verifClock) - time.Nanosecond
			if d > 0 {
				dt = d
			}
		}
	}
	s.say("advance %v", dt)
	verifClock = verifClock.Add(dt)
	// virtual deadlines of waiting picks
	var keep []*simWaiter
	for _, w := range s.waiters {
		if w.ctx.hasDl && !w.ctx.dl.After(verifClock) {
			s.begin("deadline")
			s.say("virtual deadline of a waiting pick passes")
			w.ctx.end(context.DeadlineExceeded)
			s.hit("C09.ctx-end")
			s.finishWaiter(w, "deadline passed")
			continue
		}
		keep = append(keep, w)
	}
	s.waiters = keep
}

// ------------------------------------------------------------------ entry point

var simEssential = map[string][]string{
	"C01": {"C01.home-ready-cur", "C01.home-ready:after-refresh", "C01.home-down-wait", "C01.bind", "C01.unbind", "C01.rebind-ignored", "C01.failed-bind-unbind"},
	"C02": {"C02.least-loaded-multi", "C02.at-max", "C02.count", "C02.quiescent-zero", "C02.empty-snap"},
	"C03": {"C03.initial", "C03.growth-attempt", "C03.growth-blocked-by-connecting", "C03.max", "C02.at-max"},
	"C04": {"C04.aggregate", "C04.publish", "C04.publish-tf-boundary", "C04.ignored-report", "C04.tf-picker"},
	"C05": {"C05.hostile-case", "C05.malformed-handled"},
	"C06": {"C06.lock-free-after-op", "C06.hard-state", "C09.rr-wait", "C08.place-saturated"},
	"C07": {"C07.rule", "C07.rule-refresh", "C07.swap", "C07.window-boundary", "C07.window-doubled", "C07.started-before-last-response", "C07.disabled"},
	"C08": {"C08.fallback", "C08.place", "C08.sticky", "C08.place-saturated"},
	"C09": {"C09.successor", "C09.rr-wait", "C09.waiter-released", "C09.ctx-end"},
	"C20": {"C20.addr", "C20.replacement-addr", "C20.new-addr", "C20.resolver-error"},
}

var simNontrivial = map[string][]string{
	"C01": {"C01.home-ready", "C01.home-down-wait", "C01.rebind-ignored", "C01.unbind"},
	"C02": {"C02.least-loaded-multi", "C02.at-max"},
	"C03": {"C03.growth", "C03.recreate"},
	"C04": {"C04.publish"},
	"C05": {"C05.hostile-case", "C05.malformed-handled"},
	"C06": {"C06.hard-state"},
	"C07": {"C07.rule-refresh", "C07.swap", "C07.window-boundary"},
	"C08": {"C08.fallback"},
	"C09": {"C09.successor", "C09.rr-wait"},
	"C20": {"C20.replacement-addr", "C20.new-addr", "C20.resolver-error"},
}

func simCaseCount(e vEnv) int64 {
	if e.Tier == "thorough" {
		return 1800000
	}
	return 24000
}

// TestVerifPoolSim is the entry point used by vcheck (one batch per process).
func TestVerifPoolSim(t *testing.T) {
	env := vGetEnv()
	if env.Prop == "" {
		t.Skip("VERIF_PROP not set")
	}
	out := vNewOut(env, "poolsim")
	cases := env.vCases(simCaseCount(env))
	vStuckAfter = 8 * time.Second
	nStuck, nDead := 0, 0
	for _, idx := range cases {
		if nStuck >= 2 {
			out.inconclusive("batch stopped early: operations left spinning")
			break
		}
		if nDead >= 8 {
			// every deadlocked history costs the confirmation window and leaves a
			// goroutine behind; eight witnesses are enough
			out.inconclusive("batch stopped early: histories ended in a deadlock / held lock")
			break
		}
		s := simRunCase(env, out, idx)
		if env.Replay >= 0 {
			// the code under test iterates Go maps (tie-breaks among equally loaded
			// channels), so one (seed, case) denotes a small family of histories:
			// re-execute until the recorded violation shows again
			for try := 0; try < 2000 && s.viol == nil; try++ {
				s = simRunCase(env, out, idx)
			}
		}
		out.Evaluations++
		if s.stuck {
			nStuck++
		}
		if s.dead && s.viol != nil {
			nDead++
		}
		if s.hostile && s.opCount >= 10 {
			s.hits["C05.hostile-case"]++
		}
		for k, v := range s.hits {
			out.hitN(k, v)
		}
		nt := false
		for _, r := range simNontrivial[env.Prop] {
			if s.hits[r] > 0 {
				nt = true
			}
		}
		if nt {
			out.nontrivial(vHashStrings(s.log))
			if idx%7 == 0 || len(out.Samples) == 0 {
				lg := s.log
				if len(lg) > 60 {
					lg = lg[:60]
				}
				out.sample(map[string]interface{}{"case": idx, "ops": lg})
			}
		}
		if s.viol != nil {
			v := *s.viol
			v.Log = s.log
			if env.Prop == "C07" && strings.Contains(v.Sig, "after-refresh") && (strings.HasPrefix(v.Rule, "C01.") || v.Rule == "C02.count" || strings.HasPrefix(v.Rule, "C08.")) {
				// C07: at the swap the replacement takes over the channel's bound keys, stand-ins and active streams
				v = vViol{Sig: "C07.takeover:" + v.Sig, Rule: "C07.takeover", Detail: "after a completed refresh the channel's bound keys / active streams did not follow the replacement: " + v.Detail, Case: v.Case, Log: v.Log}
			}
			if env.Prop == "C09" && s.rr && s.hits["C09.rr-pick"]+s.hits["C09.rr-wait"] > 0 && (v.Rule == "C06.lock-held" || v.Rule == "C06.deadlock" || v.Rule == "C06.blocked") {
				// C09: "calls that are not BIND are unaffected by the strategy" - after round-robin BIND picks the balancer is left locked / an operation that may not wait is blocked
				v = vViol{Sig: "C09.others-unaffected:" + v.Sig, Rule: "C09.others-unaffected", Detail: "under ROUND_ROBIN, after BIND picks, a lock is left held or an operation that may not wait is blocked: " + v.Detail, Case: v.Case, Log: v.Log}
			}
			if strings.HasPrefix(v.Rule, env.Prop+".") {
				out.violation(v)
			} else {
				out.addExtra("foreign:"+v.Sig, 1)
			}
			if env.Replay >= 0 {
				t.Logf("REPLAY case %d: %s: %s\n  %s", idx, v.Sig, v.Detail, strings.Join(s.log, "\n  "))
			}
		} else if env.Replay >= 0 {
			t.Logf("REPLAY case %d: no violation\n  %s", idx, strings.Join(s.log, "\n  "))
		}
	}
	out.Extra["essential"] = simEssential[env.Prop]
	out.write(env.Out)
}

// refreshChain: directed macro of the extreme stratum - n times: place a call
// with an expired deadline, advance just past (or exactly to) the channel's
// current window, complete it with a client-side deadline error, and let the
// replacement become READY. The ordinary rule monitors judge every step.
func (s *sim) refreshChain(n int) {
	// half of the chains cross the window every time (k grows by one per step, so
	// that the saturated region of the window arithmetic is reached); the others
	// sample the boundary itself (-1ns, 0, +1ns)
	always := s.rng.Bool()
	for i := 0; i < n && s.viol == nil && !s.dead; i++ {
		p := s.pool()
		if len(p) == 0 {
			return
		}
		ch := p[0]
		for guard := 0; !ch.ready() && guard < 6 && s.viol == nil && !s.dead; guard++ {
			switch ch.conn.state {
			case connectivity.Idle:
				s.report(ch.conn, connectivity.Connecting)
			default:
				s.report(ch.conn, connectivity.Ready)
			}
		}
		if !ch.ready() || s.viol != nil || s.dead || len(s.pubs) == 0 {
			return
		}
		before := len(s.calls)
		s.start("/v/plain", "", s.pubs[len(s.pubs)-1], true, true, -time.Nanosecond, nil, false)
		if s.viol != nil || s.dead || len(s.calls) != before+1 {
			return
		}
		win := s.window(ch.k)
		var dt time.Duration
		if win == time.Duration(1<<63-1) {
			// saturated (ms x 2^k is 292 years or more): stay well inside the true
			// window; the time since the last response must itself stay below
			// 2^63 ns for the comparison to be meaningful (DESIGN section 11)
			dt = time.Hour
		} else {
			off := s.rng.Intn(3)
			if always && s.rng.Intn(8) != 0 {
				off = 2
			}
			target := ch.t0.Add(win).Add(time.Duration(off) * time.Nanosecond) // window, +1ns, +2ns as seen by the completion
			dt = target.Sub(verifClock) - time.Nanosecond
		}
		if dt > 0 {
			s.say("advance %v (k=%d window=%v)", dt, ch.k, win)
			verifClock = verifClock.Add(dt)
		}
		if s.window(ch.k) >= time.Duration(1)<<32*time.Millisecond || ch.k >= 20 {
			s.hit("C07.extreme-window")
		}
		if s.window(ch.k) >= time.Duration(1<<63-1) {
			s.hit("C07.saturated-window")
		}
		s.finish(len(s.calls)-1, "de", nil)
		if s.viol != nil || s.dead {
			return
		}
		if ch.repl != nil {
			r := ch.repl
			s.report(r, connectivity.Connecting)
			if s.viol == nil && !s.dead {
				s.report(r, connectivity.Ready)
			}
		}
	}
}

// macroFillToWatermark: one READY channel, unkeyed calls are started (none
// completes) until the channel carries watermark+1 streams: judged by the
// ordinary rules (no growth below the watermark, growth attempt and "wait" at it).
func (s *sim) macroFillToWatermark() {
	p := s.pool()
	if len(p) == 0 {
		return
	}
	ch := p[0]
	for guard := 0; !ch.ready() && guard < 6 && s.viol == nil && !s.dead; guard++ {
		if ch.conn.state == connectivity.Idle {
			s.report(ch.conn, connectivity.Connecting)
		} else {
			s.report(ch.conn, connectivity.Ready)
		}
	}
	if !ch.ready() || len(s.pubs) == 0 {
		return
	}
	for i := 0; i < s.wm+2 && s.viol == nil && !s.dead; i++ {
		s.start("/v/plain", "", s.pubs[len(s.pubs)-1], true, false, 0, nil, false)
	}
	if s.viol == nil && !s.dead {
		s.hit("C03.filled-to-high-watermark")
	}
}

// macroRebindAfterFallbackUnbind: directed sequence (judged by the ordinary
// rules): bind K on H; H goes down; a call for K gets a stand-in; UNBIND K via
// the stand-in succeeds; K is bound again, on whatever READY channel the BIND
// lands on; a BOUND call for K must then go to that new home.
func (s *sim) macroRebindAfterFallbackUnbind() {
	ok := func() bool { return s.viol == nil && !s.dead }
	// two READY channels if possible
	n := 0
	for _, ch := range s.pool() {
		for guard := 0; !ch.ready() && guard < 5 && ok() && ch.repl == nil; guard++ {
			if ch.conn.state == connectivity.Idle {
				s.report(ch.conn, connectivity.Connecting)
			} else {
				s.report(ch.conn, connectivity.Ready)
			}
		}
		if ch.ready() {
			n++
		}
	}
	if !ok() || n < 2 || len(s.pubs) == 0 {
		return
	}
	key := ""
	for _, k := range simKeys {
		if _, bound := s.bind[k]; !bound {
			key = k
		}
	}
	if key == "" {
		return
	}
	cur := func() *simPub { return s.pubs[len(s.pubs)-1] }
	lastCall := func(before int) int {
		if len(s.calls) == before+1 {
			return len(s.calls) - 1
		}
		return -1
	}
	s.hit("C01.macro-rebind")
	// 1. bind key
	before := len(s.calls)
	s.start("/v/bind", key, cur(), true, false, 0, nil, false)
	i := lastCall(before)
	if !ok() || i < 0 {
		return
	}
	s.finish(i, "ok", []string{key})
	home, bound := s.bind[key]
	if !ok() || !bound || !home.alive {
		return
	}
	// 2. home goes down
	s.report(home.conn, connectivity.Idle)
	if !ok() {
		return
	}
	// 3. a call for the key gets a stand-in; keep it open so that the stand-in carries load
	s.start("/v/bound", key, cur(), true, false, 0, nil, false)
	if !ok() {
		return
	}
	// 4. UNBIND through the stand-in succeeds
	before = len(s.calls)
	s.start("/v/unbind", key, cur(), true, false, 0, nil, false)
	i = lastCall(before)
	if !ok() || i < 0 {
		return
	}
	s.finish(i, "ok", nil)
	if !ok() {
		return
	}
	// 5. bind again
	before = len(s.calls)
	s.start("/v/bind", key, cur(), true, false, 0, nil, false)
	i = lastCall(before)
	if !ok() || i < 0 {
		return
	}
	s.finish(i, "ok", []string{key})
	if !ok() {
		return
	}
	// 6. a call for the key must go to its new home
	s.hit("C01.macro-rebind-complete")
	s.start("/v/bound", key, cur(), true, false, 0, nil, false)
}

// macroShutdownDuringRefresh: the old connection of a channel whose refresh is
// in progress is shut down (gRPC tears it down), a resolver update arrives,
// then the replacement connects and becomes READY and takes the channel over.
// Returns false if no refresh is in progress right now.
func (s *sim) macroShutdownDuringRefresh() bool {
	var ch *simChan
	hasKeys := func(c *simChan) bool {
		for _, h := range s.bind {
			if h == c {
				return true
			}
		}
		return false
	}
	for _, c := range s.pool() {
		// prefer a refreshing channel that is the home of some key
		if c.repl != nil && (ch == nil || (hasKeys(c) && !hasKeys(ch))) {
			ch = c
		}
	}
	if ch == nil {
		return false
	}
	if !hasKeys(ch) && (s.prop == "C01" || s.prop == "C08") && s.macroTries < 40 {
		// wait for a refresh of a channel that is the home of some key
		s.macroTries++
		return false
	}
	ok := func() bool { return s.viol == nil && !s.dead }
	repl := ch.repl
	s.hit("C20.macro-shutdown-during-refresh")
	s.report(ch.conn, connectivity.Shutdown)
	if !ok() {
		return true
	}
	s.resolve(false, nil, false)
	if !ok() {
		return true
	}
	// calls for the keys bound to this channel while its old connection is gone
	// and the replacement is not READY yet, and again after the take-over
	keyedCalls := func() {
		for _, k := range simKeys {
			if s.bind[k] == ch && ok() && len(s.pubs) > 0 {
				s.hit("C08.macro-keyed-call-around-takeover")
				s.start("/v/bound", k, s.pubs[len(s.pubs)-1], true, false, 0, nil, false)
			}
		}
	}
	keyedCalls()
	if !ok() {
		return true
	}
	// a call still in flight on the old connection ends with the client-side deadline
	// error: the refresh of this channel is in progress, no further replacement may be created
	for i, c := range s.calls {
		if c.ch == ch && c.ctx.hasDl {
			verifClock = verifClock.Add(time.Hour)
			s.hit("C07.timeout-while-old-connection-gone")
			s.finish(i, "de", nil)
			break
		}
	}
	if !ok() {
		return true
	}
	if repl.state == connectivity.Idle {
		s.report(repl, connectivity.Connecting)
	}
	if ok() {
		s.report(repl, connectivity.Ready)
	}
	if ok() {
		keyedCalls()
	}
	return true
}

// macroUnbindAcrossShutdown: K is bound to channel A; an UNBIND call for K is
// placed (on A); A is reported SHUTDOWN before the UNBIND completes; the UNBIND
// succeeds; a later call carrying K must be routed like an unknown key.
// Returns false when no bound key with a READY home exists right now.
func (s *sim) macroUnbindAcrossShutdown() bool {
	if s.rr || s.hostile || len(s.pubs) == 0 {
		return false
	}
	for _, k := range simKeys {
		ch, ok := s.bind[k]
		if !ok || !ch.alive || !ch.ready() || ch.repl != nil {
			continue
		}
		okf := func() bool { return s.viol == nil && !s.dead }
		before := len(s.calls)
		s.start("/v/unbind", k, s.pubs[len(s.pubs)-1], true, false, 0, nil, false)
		if !okf() || len(s.calls) != before+1 {
			return true
		}
		s.hit("C01.macro-unbind-across-shutdown")
		s.report(ch.conn, connectivity.Shutdown)
		if !okf() {
			return true
		}
		s.finish(len(s.calls)-1, "ok", nil)
		if !okf() {
			return true
		}
		// bring another channel up if none is READY, then route K
		for _, c := range s.pool() {
			for guard := 0; !c.ready() && guard < 4 && okf() && c.repl == nil; guard++ {
				if c.conn.state == connectivity.Idle {
					s.report(c.conn, connectivity.Connecting)
				} else {
					s.report(c.conn, connectivity.Ready)
				}
			}
		}
		if okf() && len(s.pubs) > 0 {
			s.start("/v/bound", k, s.pubs[len(s.pubs)-1], true, false, 0, nil, false)
		}
		return true
	}
	return false
}

// simForeignConfig is a balancer config of another balancer's type.
type simForeignConfig struct {
	serviceconfig.LoadBalancingConfig
}

// simSetCursor presets the balancer's round-robin cursor through reflection so
// that the harness does not depend on the field's exact integer type. Returns
// false if there is no such field.
func simSetCursor(b *gcpBalancer, v uint64) bool {
	f := reflect.ValueOf(b).Elem().FieldByName("rrRefId")
	if !f.IsValid() || !f.CanAddr() {
		return false
	}
	p := reflect.NewAt(f.Type(), unsafe.Pointer(f.UnsafeAddr())).Elem()
	switch p.Kind() {
	case reflect.Uint32, reflect.Uint64, reflect.Uint:
		p.SetUint(v)
	case reflect.Int32, reflect.Int64, reflect.Int:
		p.SetInt(int64(v))
	default:
		return false
	}
	return true
}
