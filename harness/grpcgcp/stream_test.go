//go:build verif
// +build verif

package grpcgcp

// stream: C12. A fake grpc.Streamer / ClientStream log every call with a
// logical sequence number; scenario programs (receiver first or not, creation
// outcome, cancel point, bystander calls, number of sends/receives) are driven
// with gates: the streamer is held inside creation while the harness observes
// the receiver, then released. Blocking is decided from goroutine states.

import (
	"context"
	"errors"
	"fmt"
	"io"
	"runtime"
	"strings"
	"sync"
	"sync/atomic"
	"testing"
	"time"

	"google.golang.org/grpc"
	"google.golang.org/grpc/metadata"
)

type stEv struct {
	seq  int
	what string
	arg  interface{}
}

type stRec struct {
	mu  sync.Mutex
	seq int
	evs []stEv
}

func (r *stRec) add(what string, arg interface{}) int {
	r.mu.Lock()
	defer r.mu.Unlock()
	r.seq++
	r.evs = append(r.evs, stEv{r.seq, what, arg})
	return r.seq
}
func (r *stRec) count(what string) int {
	r.mu.Lock()
	defer r.mu.Unlock()
	n := 0
	for _, e := range r.evs {
		if e.what == what {
			n++
		}
	}
	return n
}
func (r *stRec) snapshot() []stEv {
	r.mu.Lock()
	defer r.mu.Unlock()
	return append([]stEv(nil), r.evs...)
}

type stUnder struct {
	r   *stRec
	ctx context.Context
	hdr metadata.MD
	// failFirstSend: the first SendMsg on the (successfully created) stream fails
	failFirstSend bool
	sends         int
	// eofNext: the next RecvMsg reports the end of the stream
	eofNext bool
}

func (f *stUnder) Header() (metadata.MD, error) { f.r.add("u.Header", nil); return f.hdr, nil }
func (f *stUnder) Trailer() metadata.MD         { f.r.add("u.Trailer", nil); return f.hdr }
func (f *stUnder) CloseSend() error             { f.r.add("u.CloseSend", nil); return nil }
func (f *stUnder) Context() context.Context     { f.r.add("u.Context", nil); return f.ctx }
func (f *stUnder) SendMsg(m interface{}) error {
	f.r.add("u.SendMsg", m)
	f.sends++
	if f.failFirstSend && f.sends == 1 {
		return io.EOF
	}
	return nil
}
func (f *stUnder) RecvMsg(m interface{}) error {
	f.r.add("u.RecvMsg", m)
	if f.eofNext {
		f.eofNext = false
		return io.EOF
	}
	return nil
}

type stUserKey struct{}

type stScenario struct {
	recvFirst  bool
	creation   string // ok | err | err-then-ok
	cancel     string // none | before-send | during-creation | after-creation
	bystander  string // none | Header | Trailer | Context | CloseSend
	byPoint    string // before-send | after-creation
	nSend      int
	nRecv      int
	lateRecv   bool // a receive issued only after everything else
	neverSends bool
	// firstSendErr: creation succeeds but the first send on the new stream returns an error
	firstSendErr bool
}

func (sc stScenario) String() string {
	return fmt.Sprintf("recvFirst=%v creation=%s cancel=%s bystander=%s@%s sends=%d recvs=%d lateRecv=%v neverSends=%v firstSendErr=%v", sc.recvFirst, sc.creation, sc.cancel, sc.bystander, sc.byPoint, sc.nSend, sc.nRecv, sc.lateRecv, sc.neverSends, sc.firstSendErr)
}

type stRun struct {
	sc   stScenario
	log  []string
	hits map[string]int64
	viol *vViol
	idx  int64
}

func (h *stRun) say(f string, a ...interface{}) { h.log = append(h.log, fmt.Sprintf(f, a...)) }
func (h *stRun) hit(r string)                   { h.hits[r]++ }
func (h *stRun) fail(rule, class, f string, a ...interface{}) {
	if h.viol != nil {
		return
	}
	sig := rule
	if class != "" {
		sig += ":" + class
	}
	h.viol = &vViol{Sig: sig, Rule: rule, Detail: fmt.Sprintf(f, a...), Case: h.idx}
}

// stWaitBlocked waits until op is done or blocked (parked or waiting for a lock).
func stWaitBlocked(op *vOp) string {
	for i := 0; i < 50; i++ {
		if op.isDone() {
			return vDone
		}
		runtime.Gosched()
	}
	t0 := time.Now()
	for {
		if op.isDone() {
			return vDone
		}
		st, fr := vGoroutineState(op.gid)
		op.state, op.frames = st, fr
		if vIsWaitState(st) || vIsLockState(st) {
			time.Sleep(100 * time.Microsecond)
			if op.isDone() {
				return vDone
			}
			st2, _ := vGoroutineState(op.gid)
			if vIsWaitState(st2) || vIsLockState(st2) {
				return vParked
			}
		}
		if time.Since(t0) > 60*time.Second {
			return vStuck
		}
		time.Sleep(50 * time.Microsecond)
	}
}

func stRunScenario(sc stScenario, idx int64) *stRun {
	h := &stRun{sc: sc, hits: map[string]int64{}, idx: idx}
	h.say("scenario %s", sc)
	rec := &stRec{}
	base := context.WithValue(context.Background(), stUserKey{}, "user-value")
	ctx, cancel := context.WithCancel(base)
	defer cancel()
	creationErr := errors.New("verif: stream creation failed")
	gate := make(chan struct{})
	entered := make(chan int, 8)
	var mu sync.Mutex
	nCreate := 0
	desc := &grpc.StreamDesc{StreamName: "s", ClientStreams: true, ServerStreams: true}
	opt := grpc.EmptyCallOption{}
	var under *stUnder
	streamer := func(sctx context.Context, d *grpc.StreamDesc, cc *grpc.ClientConn, method string, opts ...grpc.CallOption) (grpc.ClientStream, error) {
		mu.Lock()
		nCreate++
		n := nCreate
		mu.Unlock()
		gc, _ := sctx.Value(gcpKey).(*gcpContext)
		var req interface{}
		if gc != nil {
			req = gc.reqMsg
		}
		rec.add("create.call", req)
		if d != desc || method != "/svc/stream" || len(opts) != 1 {
			rec.add("create.badargs", fmt.Sprintf("desc=%v method=%q opts=%d", d == desc, method, len(opts)))
		}
		if sctx.Value(stUserKey{}) != "user-value" {
			rec.add("create.lostctx", nil)
		}
		entered <- n
		<-gate
		if sctx.Err() != nil {
			rec.add("create.err", sctx.Err())
			return nil, sctx.Err()
		}
		if (n == 1 && (sc.creation == "err" || sc.creation == "err-then-ok")) || (n >= 2 && sc.creation == "err") {
			rec.add("create.err", creationErr)
			if idx%2 == 1 {
				// a failing streamer (e.g. a chained interceptor) may hand back a typed-nil
				// stream next to its error: the error decides, the value must not be kept
				rec.add("create.typed-nil", nil)
				return (*stUnder)(nil), creationErr
			}
			return nil, creationErr
		}
		under = &stUnder{r: rec, ctx: sctx, hdr: metadata.Pairs("k", "v"), failFirstSend: sc.firstSendErr}
		rec.add("create.ok", nil)
		return under, nil
	}
	cs, err := GCPStreamClientInterceptor(ctx, desc, nil, "/svc/stream", streamer, opt)
	if err != nil || cs == nil {
		h.fail("C12.interceptor-error", "", "GCPStreamClientInterceptor returned %v, %v", cs, err)
		return h
	}
	h.hit("C12.not-created-at-construction")
	if rec.count("create.call") != 0 {
		h.fail("C12.created-early", "construction", "the streamer was invoked before the first SendMsg (at construction)")
		return h
	}
	// call a wrapper method in its own goroutine; classify
	call := func(name string, f func()) *vOp {
		rec.add("call."+name, nil)
		return vStartOp(func() { f(); rec.add("ret."+name, nil) })
	}
	finishOp := func(op *vOp, name string, point string, mayBlock bool) bool {
		st := stWaitBlocked(op)
		if st == vDone {
			if op.panicked {
				h.fail("C12.panic", vPanicKind(op.pval)+"@"+name+"("+point+")", "%s %s panicked: %v | %s", name, point, op.pval, simTrimStack(op.pstack))
				return false
			}
			return true
		}
		if st == vParked && mayBlock {
			return true
		}
		h.fail("C12.blocked", name+"("+point+")", "%s %s does not return (%s, goroutine state %q)", name, point, st, op.state)
		return false
	}
	bystand := func(point string) (*vOp, bool) {
		var op *vOp
		switch sc.bystander {
		case "Header":
			op = call("Header", func() { cs.Header() })
		case "Trailer":
			op = call("Trailer", func() { cs.Trailer() })
		case "Context":
			var got context.Context
			op = call("Context", func() { got = cs.Context() })
			ok := finishOp(op, "Context", point, false)
			if ok {
				h.hit("C12.bystander:" + point)
				if got == nil || got.Value(stUserKey{}) != "user-value" {
					h.fail("C12.context-values", point, "Context() %s does not carry the caller's context values", point)
					return op, false
				}
			}
			return op, ok
		case "CloseSend":
			op = call("CloseSend", func() { cs.CloseSend() })
		default:
			return nil, true
		}
		// Header may legitimately wait for the stream before the first send
		ok := finishOp(op, sc.bystander, point, sc.bystander == "Header" && point == "before-send")
		if ok {
			h.hit("C12.bystander:" + point)
		}
		return op, ok
	}
	var pendingBy *vOp
	if sc.bystander != "none" && sc.byPoint == "before-send" {
		op, ok := bystand("before-send")
		if !ok {
			return h
		}
		if op != nil && !op.isDone() {
			pendingBy = op
		}
		if rec.count("create.call") != 0 {
			h.fail("C12.created-early", sc.bystander, "the streamer was invoked by %s before the first SendMsg", sc.bystander)
			return h
		}
	}
	// receiver
	recvErrs := make([]error, sc.nRecv)
	recvArgs := make([]*int, sc.nRecv)
	for i := range recvArgs {
		recvArgs[i] = new(int)
	}
	var recvOp *vOp
	startRecv := func() {
		recvOp = vStartOp(func() {
			for i := 0; i < sc.nRecv; i++ {
				rec.add("recv.call", recvArgs[i])
				recvErrs[i] = cs.RecvMsg(recvArgs[i])
				rec.add("recv.ret", recvErrs[i])
			}
		})
	}
	if sc.recvFirst && sc.nRecv > 0 {
		startRecv()
		st := stWaitBlocked(recvOp)
		h.hit("C12.recv-before-send")
		if st == vDone {
			if recvOp.panicked {
				h.fail("C12.panic", vPanicKind(recvOp.pval)+"@RecvMsg(before-send)", "RecvMsg before the first SendMsg panicked: %v", recvOp.pval)
			} else {
				h.fail("C12.recv-early-return", "before-send", "RecvMsg issued before the first SendMsg returned (%v) although no stream exists and the context is live", recvErrs[0])
			}
			return h
		}
		if st != vParked {
			h.fail("C12.blocked", "RecvMsg", "receiver neither parked nor done: %s", st)
			return h
		}
		h.say("receiver parked (%s)", recvOp.state)
	}
	endAll := func() {
		// make sure no goroutine is left behind
		cancel()
		select {
		case <-gate:
		default:
			close(gate)
		}
	}
	if sc.cancel == "before-send" || sc.neverSends {
		h.say("cancel the call's context before any SendMsg")
		cancel()
		if recvOp != nil {
			st := recvOp.awaitDone(2 * time.Second)
			h.hit("C12.recv-returns-on-context-end")
			if st != vDone {
				h.fail("C12.recv-ignores-context", "before-send", "RecvMsg is still blocked (%s, goroutine %q) after the call's context ended and no SendMsg will ever come", st, recvOp.state)
				endAll()
				return h
			}
			if recvOp.panicked {
				h.fail("C12.panic", vPanicKind(recvOp.pval)+"@RecvMsg(context-end)", "RecvMsg panicked when the context ended: %v", recvOp.pval)
				return h
			}
			if recvErrs[0] == nil {
				h.fail("C12.recv-early-return", "context-end", "RecvMsg returned nil after the context ended without a stream")
				return h
			}
		}
		if pendingBy != nil {
			if st := pendingBy.awaitDone(2 * time.Second); st != vDone {
				h.fail("C12.blocked", sc.bystander+"(context-end)", "%s still blocked after the context ended", sc.bystander)
				endAll()
				return h
			}
		}
		if sc.neverSends {
			endAll()
			return h
		}
	}
	// sender
	sendErrs := make([]error, sc.nSend)
	msgs := make([]*string, sc.nSend)
	for i := range msgs {
		s := fmt.Sprintf("m%d", i)
		msgs[i] = &s
	}
	sendOp := vStartOp(func() {
		for i := 0; i < sc.nSend; i++ {
			rec.add("send.call", msgs[i])
			sendErrs[i] = cs.SendMsg(msgs[i])
			rec.add("send.ret", sendErrs[i])
		}
	})
	if !sc.recvFirst && sc.nRecv > 0 {
		startRecv()
	}
	// creations
	creations := 0
	for {
		var n int
		select {
		case n = <-entered:
		case <-sendOp.done:
			n = -1
		case <-time.After(60 * time.Second):
			h.fail("C12.blocked", "SendMsg", "SendMsg neither entered the streamer nor returned")
			endAll()
			return h
		}
		if n < 0 {
			break
		}
		creations++
		h.hit("C12.creation-gated")
		// while creation is in progress no RecvMsg may return (context live)
		if recvOp != nil && sc.cancel != "before-send" && creations == 1 {
			time.Sleep(300 * time.Microsecond)
			if rec.count("create.ok") == 0 && rec.count("recv.ret") > 0 && ctx.Err() == nil {
				h.fail("C12.recv-early-return", "during-creation", "RecvMsg returned while the stream was still being created")
				endAll()
				return h
			}
			h.hit("C12.recv-waits-during-creation")
		}
		if sc.cancel == "during-creation" && n == 1 {
			h.say("cancel during creation")
			cancel()
		}
		gate <- struct{}{}
	}
	if sendOp.panicked {
		h.fail("C12.panic", vPanicKind(sendOp.pval)+"@SendMsg", "SendMsg panicked: %v | %s", sendOp.pval, simTrimStack(sendOp.pstack))
		endAll()
		return h
	}
	if sc.cancel == "after-creation" {
		cancel()
	}
	// receiver must finish now: a stream exists or creation failed or the context ended
	if recvOp != nil && !(sc.cancel == "before-send") {
		st := recvOp.awaitDone(2 * time.Second)
		h.hit("C12.recv-released")
		if st != vDone {
			cls := "after-creation"
			if rec.count("create.ok") == 0 {
				cls = "after-failed-creation"
			}
			h.fail("C12.recv-stuck", cls, "RecvMsg still blocked (%s, %q) after the first SendMsg finished (creations=%d ok=%d)", st, recvOp.state, creations, rec.count("create.ok"))
			endAll()
			return h
		}
		if recvOp.panicked {
			h.fail("C12.panic", vPanicKind(recvOp.pval)+"@RecvMsg", "RecvMsg panicked: %v | %s", recvOp.pval, simTrimStack(recvOp.pstack))
			return h
		}
	}
	if pendingBy != nil {
		if st := pendingBy.awaitDone(2 * time.Second); st != vDone {
			h.fail("C12.blocked", sc.bystander+"(after-creation)", "%s issued before the first send is still blocked after the stream was created", sc.bystander)
			endAll()
			return h
		}
		if pendingBy.panicked {
			h.fail("C12.panic", vPanicKind(pendingBy.pval)+"@"+sc.bystander+"(released)", "%s panicked: %v", sc.bystander, pendingBy.pval)
			return h
		}
	}
	if sc.bystander != "none" && sc.byPoint == "after-creation" {
		before := rec.count("u." + sc.bystander)
		if _, ok := bystand("after-creation"); !ok {
			endAll()
			return h
		}
		if rec.count("create.ok") > 0 {
			h.hit("C12.bystander-delegates")
			if rec.count("u."+sc.bystander) != before+1 {
				h.fail("C12.not-delegated", sc.bystander, "%s after creation did not reach the underlying stream", sc.bystander)
				return h
			}
		}
	}
	// a late receive, after everything: must reach the stream if one exists
	var lateErr error
	lateArg := new(int)
	if sc.lateRecv {
		op := vStartOp(func() {
			rec.add("recv.call", lateArg)
			lateErr = cs.RecvMsg(lateArg)
			rec.add("recv.ret", lateErr)
		})
		if rec.count("create.ok") > 0 || rec.count("create.err") > 0 || ctx.Err() != nil {
			st := op.awaitDone(2 * time.Second)
			if st != vDone || op.panicked {
				h.fail("C12.recv-stuck", "late", "late RecvMsg: %s %v", st, op.pval)
				endAll()
				return h
			}
		}
	}
	// a late send after the call's context was cancelled: once created, every
	// send reaches the underlying stream (it is the stream that reports the cancellation)
	lateSendMsg := new(string)
	*lateSendMsg = "late-send"
	lateSendIssued := false
	if sc.cancel == "after-creation" && rec.count("create.ok") == 1 && ctx.Err() != nil {
		op := vStartOp(func() { _ = cs.SendMsg(lateSendMsg) })
		if st := op.awaitDone(5 * time.Second); st != vDone {
			h.fail("C12.blocked", "SendMsg(after-cancel)", "a SendMsg after the stream was created and the context was cancelled is blocked (%s)", st)
			endAll()
			return h
		}
		if op.panicked {
			h.fail("C12.panic", vPanicKind(op.pval)+"@SendMsg(after-cancel)", "SendMsg after cancellation panicked: %v", op.pval)
			endAll()
			return h
		}
		lateSendIssued = true
	}
	// the end of the stream: the underlying RecvMsg reports io.EOF; the stream object
	// stays the one and only stream of this call (Trailer still delegates, a further
	// SendMsg reaches it and creates nothing)
	eofArg := new(int)
	tailMsg := new(string)
	*tailMsg = "after-eof"
	tailIssued := false
	if sc.cancel == "none" && !sc.firstSendErr && !sc.neverSends && rec.count("create.ok") == 1 && under != nil && idx%2 == 0 {
		creationsBefore := rec.count("create.call")
		trailersBefore := rec.count("u.Trailer")
		under.eofNext = true
		var eofErr error
		var tailPanic interface{}
		op := vStartOp(func() {
			eofErr = cs.RecvMsg(eofArg)
			_ = cs.Trailer()
			_ = cs.SendMsg(tailMsg)
		})
		if st := op.awaitDone(500 * time.Millisecond); st != vDone {
			h.fail("C12.blocked", "after-eof", "RecvMsg/Trailer/SendMsg after the end of the stream are blocked (%s)", st)
			endAll()
			return h
		}
		if op.panicked {
			tailPanic = op.pval
			h.fail("C12.panic", vPanicKind(tailPanic)+"@after-eof", "RecvMsg/Trailer/SendMsg after the end of the stream panicked: %v", tailPanic)
			endAll()
			return h
		}
		h.hit("C12.after-end-of-stream")
		tailIssued = true
		switch {
		case eofErr != io.EOF:
			h.fail("C12.recv-not-delegated", "eof", "the underlying stream's RecvMsg returned io.EOF, the wrapper returned %v", eofErr)
		case rec.count("u.Trailer") != trailersBefore+1:
			h.fail("C12.not-delegated", "Trailer(after-eof)", "Trailer() after the end of the stream did not reach the underlying stream")
		case rec.count("create.call") != creationsBefore:
			h.fail("C12.second-creation", "after-eof", "a SendMsg after the end of the stream invoked the streamer again")
		}
		if h.viol != nil {
			endAll()
			return h
		}
	}
	endAll()

	// ------------------------------------------------ offline check of the event log
	evs := rec.snapshot()
	var firstSend, lastSend interface{}
	successSeq, createDoneSeq := -1, -1
	var uSent, uRecv []interface{}
	lateSendSeen := false
	tailSeen := false
	createOKs := 0
	for _, e := range evs {
		switch e.what {
		case "send.call":
			if firstSend == nil {
				firstSend = e.arg
			}
			lastSend = e.arg
		case "create.call":
			h.hit("C12.first-message-visible")
			if createDoneSeq >= 0 && createOKs == 0 {
				// a creation attempt after a failed one: the stream is created by the SendMsg
				// in progress, whose message is the first one on the stream
				h.hit("C12.retry-message-visible")
				if e.arg != lastSend {
					h.fail("C12.first-message", "retry", "after a failed creation the streamer's context carries request %v, the SendMsg that creates the stream sends %v", e.arg, lastSend)
					return h
				}
			}
			if successSeq >= 0 {
				h.fail("C12.second-creation", "", "the streamer was invoked again after a successful creation")
				return h
			}
			if e.arg != firstSend && createOKs == 0 && createDoneSeq < 0 {
				h.fail("C12.first-message", "", "the streamer's context carries request %v, the first SendMsg message is %v", e.arg, firstSend)
				return h
			}
			if e.arg == nil {
				h.fail("C12.first-message", "missing", "the streamer was invoked without the message in the gcpContext")
				return h
			}
		case "create.typed-nil":
			h.hit("C12.failed-creation-returns-typed-nil")
		case "create.badargs":
			h.fail("C12.streamer-args", "", "streamer invoked with different arguments: %v", e.arg)
			return h
		case "create.lostctx":
			h.fail("C12.context-values", "streamer", "the caller's context values are not visible to the streamer")
			return h
		case "create.ok":
			createOKs++
			successSeq = e.seq
			if createDoneSeq < 0 {
				createDoneSeq = e.seq
			}
		case "create.err":
			if createDoneSeq < 0 {
				createDoneSeq = e.seq
			}
		case "u.SendMsg":
			if e.arg == interface{}(lateSendMsg) {
				lateSendSeen = true
				continue
			}
			if e.arg == interface{}(tailMsg) {
				tailSeen = true
				continue
			}
			uSent = append(uSent, e.arg)
		case "u.RecvMsg":
			if e.arg == interface{}(eofArg) {
				continue
			}
			uRecv = append(uRecv, e.arg)
		case "recv.ret":
			if createDoneSeq < 0 && ctx.Err() == nil {
				h.fail("C12.recv-early-return", "log", "a RecvMsg returned before any creation attempt finished")
				return h
			}
		}
	}
	if createOKs > 1 {
		h.fail("C12.second-creation", "two-ok", "two successful creations")
		return h
	}
	// sends: those that returned nil reached the stream unchanged, in order
	var okSent []interface{}
	for i := range msgs {
		if sendErrs[i] == nil || (sc.firstSendErr && i == 0 && sendErrs[i] == io.EOF) {
			okSent = append(okSent, msgs[i])
		}
	}
	if sc.firstSendErr && createOKs == 1 {
		h.hit("C12.first-send-error-no-second-stream")
		if sendErrs[0] != io.EOF {
			h.fail("C12.sends", "first-send-error", "the underlying stream's first SendMsg failed with io.EOF, the wrapper returned %v", sendErrs[0])
			return h
		}
	}
	if lateSendIssued {
		h.hit("C12.late-send-after-cancel-reaches-stream")
		if !lateSendSeen {
			h.fail("C12.sends", "after-cancel", "a SendMsg issued after the stream was created and the call's context was cancelled did not reach the underlying stream")
			return h
		}
	}
	if tailIssued && !tailSeen {
		h.fail("C12.sends", "after-eof", "a SendMsg issued after the underlying stream reported io.EOF did not reach the underlying stream")
		return h
	}
	h.hit("C12.sends-in-order")
	if len(okSent) != len(uSent) {
		h.fail("C12.sends", "count", "%d SendMsg calls succeeded, the underlying stream saw %d", len(okSent), len(uSent))
		return h
	}
	for i := range okSent {
		if okSent[i] != uSent[i] {
			h.fail("C12.sends", "order", "send %d reached the underlying stream as %v", i, uSent[i])
			return h
		}
	}
	// a failed first creation must be reported by the failing SendMsg
	if (sc.creation == "err" || sc.creation == "err-then-ok") && sc.cancel == "none" {
		h.hit("C12.creation-error-returned")
		if sendErrs[0] != creationErr {
			h.fail("C12.creation-error", "send", "first SendMsg returned %v, the streamer failed with %v", sendErrs[0], creationErr)
			return h
		}
	}
	// receives
	if createOKs == 1 && sc.cancel == "none" {
		// every receive that was issued after (or released by) the successful creation must reach the stream
		want := 0
		if sc.lateRecv {
			want++
			h.hit("C12.late-recv-reaches-stream")
			if lateErr != nil {
				cls := "after-success"
				if sc.creation == "err-then-ok" {
					cls = "after-retried-creation"
				}
				h.fail("C12.recv-not-delegated", cls, "a RecvMsg issued after the stream was created returned %v instead of reaching the stream", lateErr)
				return h
			}
		}
		if sc.creation == "ok" {
			want += sc.nRecv
			for i, e := range recvErrs {
				if e != nil {
					h.fail("C12.recv-not-delegated", "ok", "RecvMsg %d returned %v although the stream was created", i, e)
					return h
				}
			}
			h.hit("C12.recv-delegated")
			if len(uRecv) != want {
				h.fail("C12.recv-not-delegated", "count", "%d RecvMsg calls, the underlying stream saw %d", want, len(uRecv))
				return h
			}
			for i := 0; i < sc.nRecv; i++ {
				if uRecv[i] != interface{}(recvArgs[i]) {
					h.fail("C12.recv-not-delegated", "arg", "RecvMsg %d reached the stream with a different argument", i)
					return h
				}
			}
		}
	}
	if createOKs == 1 && sc.cancel == "after-creation" && sc.lateRecv {
		// once created, every receive reaches the underlying stream - also when
		// the call's context has ended meanwhile (the stream itself reports that)
		h.hit("C12.late-recv-after-cancel-reaches-stream")
		found := false
		for _, a := range uRecv {
			if a == interface{}(lateArg) {
				found = true
			}
		}
		if !found {
			h.fail("C12.recv-not-delegated", "after-cancel", "a RecvMsg issued after the stream was created and the context was cancelled did not reach the underlying stream (returned %v)", lateErr)
			return h
		}
	}
	if sc.creation == "err" && sc.cancel == "none" && sc.nRecv > 0 && sc.recvFirst {
		h.hit("C12.recv-gets-creation-error")
		if recvErrs[0] != creationErr {
			h.fail("C12.creation-error", "recv", "RecvMsg waiting for the stream returned %v, the creation error is %v", recvErrs[0], creationErr)
			return h
		}
	}
	return h
}

// stCancelInWaitWindow: gate scenario. The receiver is held at the yield site
// right before its cond.Wait() (it still holds the stream's lock there), the
// call's context is cancelled, the watcher that must wake the receiver gets a
// chance to run, then the receiver is released. It must return.
func stCancelInWaitWindow(idx int64) *stRun {
	h := &stRun{hits: map[string]int64{}, idx: idx}
	h.say("scenario cancel-in-wait-window: RecvMsg held right before cond.Wait, context cancelled, then released")
	ctx, cancel := context.WithCancel(context.Background())
	defer cancel()
	streamer := func(sctx context.Context, d *grpc.StreamDesc, cc *grpc.ClientConn, method string, opts ...grpc.CallOption) (grpc.ClientStream, error) {
		return &stQuietStream{ctx: sctx}, nil
	}
	cs, err := GCPStreamClientInterceptor(ctx, &grpc.StreamDesc{}, nil, "/svc/stream", streamer)
	if err != nil {
		h.fail("C12.interceptor-error", "", "%v", err)
		return h
	}
	gate := make(chan struct{})
	reached := make(chan string, 1)
	var armed int32 = 1
	var broadcasts int32
	verifYieldFn = func(site string) {
		if strings.Contains(site, "/Broadcast#") {
			atomic.AddInt32(&broadcasts, 1)
		}
		if strings.Contains(site, "/Wait#") && atomic.CompareAndSwapInt32(&armed, 1, 0) {
			reached <- site
			<-gate
		}
	}
	defer func() { verifYieldFn = nil }()
	var rerr error
	op := vStartOp(func() {
		var x int
		rerr = cs.RecvMsg(&x)
	})
	var site string
	select {
	case site = <-reached:
	case <-op.done:
		h.hits["C12.gate-not-reached"]++
		return h
	case <-time.After(10 * time.Second):
		h.hits["C12.gate-not-reached"]++
		close(gate)
		return h
	}
	cancel()
	// give the watcher a chance: either it broadcasts at once (without waiting
	// for the receiver to be inside Wait) or it blocks on the stream's lock
	for i := 0; i < 40 && atomic.LoadInt32(&broadcasts) == 0; i++ {
		time.Sleep(500 * time.Microsecond)
	}
	early := atomic.LoadInt32(&broadcasts) > 0
	h.say("receiver held at %s; context cancelled; watcher broadcast before the receiver waits: %v", site, early)
	close(gate)
	st := op.awaitDone(2 * time.Second)
	h.hit("C12.cancel-in-wait-window")
	if st != vDone {
		h.fail("C12.recv-ignores-context", "cancel-in-wait-window", "RecvMsg stays blocked (%s, %q): the context ended between its context check and cond.Wait and the wake-up was lost", st, op.state)
		// unblock the leaked goroutine: create the stream
		go cs.SendMsg(1)
		return h
	}
	if op.panicked {
		h.fail("C12.panic", vPanicKind(op.pval)+"@RecvMsg(cancel-in-wait-window)", "RecvMsg panicked: %v", op.pval)
		return h
	}
	if rerr == nil {
		h.fail("C12.recv-early-return", "cancel-in-wait-window", "RecvMsg returned nil without a stream")
	}
	return h
}

// stBlockingFirstSend: the first SendMsg on the underlying stream blocks (flow
// control); a RecvMsg issued before the first send must be released as soon as
// the stream exists, not only when that send returns.
type stBlockingStream struct {
	stQuietStream
	entered chan struct{}
	release chan struct{}
	recvs   int32
}

func (f *stBlockingStream) SendMsg(m interface{}) error {
	select {
	case f.entered <- struct{}{}:
	default:
	}
	<-f.release
	return nil
}
func (f *stBlockingStream) RecvMsg(m interface{}) error { atomic.AddInt32(&f.recvs, 1); return nil }

func stBlockingFirstSend(idx int64) *stRun {
	h := &stRun{hits: map[string]int64{}, idx: idx}
	h.say("scenario blocking-first-send: RecvMsg before the first SendMsg; the underlying stream's first SendMsg blocks")
	ctx, cancel := context.WithCancel(context.Background())
	defer cancel()
	under := &stBlockingStream{entered: make(chan struct{}, 1), release: make(chan struct{})}
	streamer := func(sctx context.Context, d *grpc.StreamDesc, cc *grpc.ClientConn, method string, opts ...grpc.CallOption) (grpc.ClientStream, error) {
		under.ctx = sctx
		return under, nil
	}
	cs, err := GCPStreamClientInterceptor(ctx, &grpc.StreamDesc{}, nil, "/svc/stream", streamer)
	if err != nil {
		h.fail("C12.interceptor-error", "", "%v", err)
		return h
	}
	var rerr error
	recvOp := vStartOp(func() {
		var x int
		rerr = cs.RecvMsg(&x)
	})
	if st := stWaitBlocked(recvOp); st != vParked {
		close(under.release)
		if st == vDone && !recvOp.panicked {
			h.fail("C12.recv-early-return", "before-send", "RecvMsg returned before any SendMsg")
		}
		return h
	}
	sendOp := vStartOp(func() { cs.SendMsg("m0") })
	select {
	case <-under.entered:
	case <-sendOp.done:
	case <-time.After(20 * time.Second):
		close(under.release)
		h.fail("C12.blocked", "SendMsg", "first SendMsg never reached the underlying stream")
		return h
	}
	// the stream exists (its SendMsg is executing): the receiver must be released now
	st := recvOp.awaitDone(2 * time.Second)
	h.hit("C12.recv-released-while-send-blocks")
	if st != vDone {
		h.fail("C12.recv-stuck", "while-first-send-blocks", "RecvMsg is still blocked (%s, %q) although the underlying stream exists; it only waits for the first underlying SendMsg to return", st, recvOp.state)
		close(under.release)
		sendOp.awaitDone(2 * time.Second)
		return h
	}
	close(under.release)
	sendOp.awaitDone(2 * time.Second)
	if recvOp.panicked || sendOp.panicked {
		h.fail("C12.panic", "blocking-first-send", "panic: %v %v", recvOp.pval, sendOp.pval)
		return h
	}
	if rerr != nil || atomic.LoadInt32(&under.recvs) != 1 {
		h.fail("C12.recv-not-delegated", "blocking-first-send", "RecvMsg returned %v, underlying RecvMsg calls=%d", rerr, under.recvs)
	}
	return h
}

// ---------------------------------------------------------------- unary

func stUnary(rng *vRand, h *stRun) {
	req, reply := &simMsg{Key: "k"}, &simMsg{}
	wantErr := error(nil)
	if rng.Bool() {
		wantErr = errors.New("verif: invoker error")
	}
	method := fmt.Sprintf("/svc/u%d", rng.Intn(5))
	opts := []grpc.CallOption{grpc.EmptyCallOption{}, grpc.WaitForReady(true)}[:rng.Intn(3)]
	ctx := context.WithValue(context.Background(), stUserKey{}, "user-value")
	// the caller's context may end while the invoker runs (or be over already):
	// what the invoker returns is still what the caller gets
	ctxEnds := rng.Intn(3)
	var cancelCtx context.CancelFunc
	if ctxEnds > 0 {
		ctx, cancelCtx = context.WithCancel(ctx)
		defer cancelCtx()
		if ctxEnds == 2 {
			cancelCtx()
		}
		h.hit("C12.unary-context-ends")
	}
	nested := rng.Bool()
	if nested {
		// the caller's context is derived from another intercepted call (e.g. an
		// auxiliary RPC issued by a chained interceptor): it already carries that
		// call's request/reply
		ctx = context.WithValue(ctx, gcpKey, &gcpContext{reqMsg: &simMsg{Key: "other-call"}, replyMsg: &simMsg{}})
		h.hit("C12.unary-nested-context")
	}
	calls := 0
	var bad string
	invoker := func(ictx context.Context, m string, rq, rp interface{}, cc *grpc.ClientConn, o ...grpc.CallOption) error {
		calls++
		if m != method || rq != interface{}(req) || rp != interface{}(reply) || cc != nil || len(o) != len(opts) {
			bad = fmt.Sprintf("invoker got method=%q req-same=%v reply-same=%v opts=%d", m, rq == interface{}(req), rp == interface{}(reply), len(o))
		}
		if ictx.Value(stUserKey{}) != "user-value" {
			bad = "caller's context values are lost"
		}
		gc, ok := ictx.Value(gcpKey).(*gcpContext)
		if !ok || gc.reqMsg != interface{}(req) || gc.replyMsg != interface{}(reply) {
			bad = "the context handed to the invoker does not carry the request and reply objects"
		}
		if ctxEnds == 1 {
			cancelCtx()
		}
		return wantErr
	}
	var err error
	op := vStartOp(func() { err = GCPUnaryClientInterceptor(ctx, method, req, reply, nil, invoker, opts...) })
	h.say("unary %s opts=%d invokerErr=%v nested-gcp-context=%v caller-context-ends=%d (0 no, 1 during the invoker, 2 before)", method, len(opts), wantErr, nested, ctxEnds)
	if st := op.awaitDone(5 * time.Second); st != vDone || op.panicked {
		h.fail("C12.panic", "unary", "GCPUnaryClientInterceptor panicked or hung: %v", op.pval)
		return
	}
	h.hit("C12.unary-transparent")
	if calls != 1 {
		h.fail("C12.unary", "calls", "invoker called %d times", calls)
	} else if bad != "" {
		h.fail("C12.unary", "args", "%s", bad)
	} else if err != wantErr {
		h.fail("C12.unary", "error", "interceptor returned %v, invoker returned %v", err, wantErr)
	}
}

// ---------------------------------------------------------------- enumeration

func stAllScenarios() []stScenario {
	var r []stScenario
	for _, recvFirst := range []bool{false, true} {
		for _, creation := range []string{"ok", "err", "err-then-ok"} {
			for _, cancel := range []string{"none", "before-send", "during-creation", "after-creation"} {
				for _, by := range []string{"none", "Header", "Trailer", "Context", "CloseSend"} {
					for _, bp := range []string{"before-send", "after-creation"} {
						if by == "none" && bp == "after-creation" {
							continue
						}
						for _, ns := range []int{1, 3} {
							for _, nr := range []int{0, 1, 2} {
								for _, late := range []bool{false, true} {
									if recvFirst && nr == 0 {
										continue
									}
									if creation == "err-then-ok" && ns < 2 {
										continue
									}
									r = append(r, stScenario{recvFirst: recvFirst, creation: creation, cancel: cancel, bystander: by, byPoint: bp, nSend: ns, nRecv: nr, lateRecv: late})
								}
							}
						}
					}
				}
			}
		}
	}
	// creation succeeds, the first send on the new stream fails, further sends follow
	for _, recvFirst := range []bool{false, true} {
		for _, nr := range []int{0, 1} {
			if recvFirst && nr == 0 {
				continue
			}
			r = append(r, stScenario{recvFirst: recvFirst, creation: "ok", cancel: "none", bystander: "none", byPoint: "before-send", nSend: 3, nRecv: nr, lateRecv: true, firstSendErr: true})
		}
	}
	// the receiver waits and no SendMsg ever comes
	for _, by := range []string{"none", "Header"} {
		r = append(r, stScenario{recvFirst: true, creation: "ok", cancel: "none", bystander: by, byPoint: "before-send", nSend: 1, nRecv: 1, neverSends: true})
	}
	return r
}

var stNontrivial = []string{"C12.creation-gated", "C12.recv-before-send", "C12.unary-transparent", "C12.bystander:before-send", "C12.cancel-in-wait-window", "C12.recv-released-while-send-blocks"}

func TestVerifStream(t *testing.T) {
	env := vGetEnv()
	if env.Prop == "" {
		t.Skip("VERIF_PROP not set")
	}
	out := vNewOut(env, "stream")
	all := stAllScenarios()
	reps := int64(6)
	if env.Tier == "thorough" {
		reps = 120
	}
	total := int64(len(all)) * reps
	out.Extra["scenarios"] = int64(0)
	if env.Batch == 0 {
		out.Extra["scenarios"] = int64(len(all))
	}
	for _, idx := range env.vCases(total) {
		rng := vNewRand(env.Seed, "stream", idx)
		sc := all[idx%int64(len(all))]
		var h *stRun
		if idx%int64(len(all)) == 0 || idx%37 == 5 {
			h = stCancelInWaitWindow(idx)
			sc = stScenario{creation: "gate:cancel-in-wait-window"}
			h.sc = sc
		} else if idx%int64(len(all)) == 1 || idx%37 == 6 {
			h = stBlockingFirstSend(idx)
			sc = stScenario{creation: "gate:blocking-first-send"}
			h.sc = sc
		} else {
			h = stRunScenario(sc, idx)
		}
		if h.viol == nil && idx%4 == 0 {
			stUnary(rng, h)
		}
		out.Evaluations++
		for k, v := range h.hits {
			out.hitN(k, v)
		}
		for _, r := range stNontrivial {
			if h.hits[r] > 0 {
				out.nontrivial(vHashStrings([]string{sc.String()}))
				break
			}
		}
		if len(out.Samples) < 3 && idx%97 == 0 {
			out.sample(map[string]interface{}{"case": idx, "scenario": sc.String(), "log": h.log})
		}
		if h.viol != nil {
			v := *h.viol
			v.Log = h.log
			if env.Prop == "C05" {
				// C05 run of the stream engine: only panics are C05's business
				if v.Rule != "C12.panic" {
					out.addExtra("foreign:"+v.Sig, 1)
					continue
				}
				v.Rule = "C05.panic"
				v.Sig = "C05.panic:" + strings.TrimPrefix(v.Sig, "C12.panic:")
			}
			out.violation(v)
			if env.Replay >= 0 {
				t.Logf("REPLAY case %d: %s: %s\n  %s", idx, v.Sig, v.Detail, strings.Join(h.log, "\n  "))
			}
		} else if env.Replay >= 0 {
			t.Logf("REPLAY case %d: no violation\n  %s", idx, strings.Join(h.log, "\n  "))
		}
	}
	out.write(env.Out)
}

// ---------------------------------------------------------------- C10 workload (built with -race)

type stQuietStream struct{ ctx context.Context }

func (f *stQuietStream) Header() (metadata.MD, error) { return nil, nil }
func (f *stQuietStream) Trailer() metadata.MD         { return nil }
func (f *stQuietStream) CloseSend() error             { return nil }
func (f *stQuietStream) Context() context.Context     { return f.ctx }
func (f *stQuietStream) SendMsg(m interface{}) error  { return nil }
func (f *stQuietStream) RecvMsg(m interface{}) error  { return nil }

// TestVerifRaceStream: sender || receiver || Context/Header/Trailer on one
// wrapped stream. The fake underlying stream keeps no shared harness state,
// so it adds no happens-before edges.
func TestVerifRaceStream(t *testing.T) {
	env := vGetEnv()
	if env.Prop == "" {
		t.Skip("VERIF_PROP not set")
	}
	out := vNewOut(env, "race-stream")
	n := int64(2000)
	if env.Tier == "thorough" {
		n = 150000
	}
	var streams, sends, recvs, bys int64
	for _, idx := range env.vCases(n) {
		rng := vNewRand(env.Seed, "race-stream", idx)
		ctx, cancel := context.WithCancel(context.Background())
		fail := rng.Intn(4) == 0
		attempts := 0
		streamer := func(sctx context.Context, d *grpc.StreamDesc, cc *grpc.ClientConn, method string, opts ...grpc.CallOption) (grpc.ClientStream, error) {
			attempts++ // only ever called under the wrapper's lock
			if fail && attempts == 1 {
				return nil, errors.New("creation failed")
			}
			return &stQuietStream{ctx: sctx}, nil
		}
		cs, _ := GCPStreamClientInterceptor(ctx, &grpc.StreamDesc{}, nil, "/m", streamer)
		var wg sync.WaitGroup
		ns, nr := 1+rng.Intn(3), rng.Intn(3)
		by := rng.Intn(4)
		d1, d2 := rng.Intn(3), rng.Intn(3)
		wg.Add(3)
		go func() {
			defer wg.Done()
			for i := 0; i < d1; i++ {
				runtime.Gosched()
			}
			for i := 0; i < ns; i++ {
				cs.SendMsg(i)
			}
		}()
		go func() {
			defer wg.Done()
			for i := 0; i < d2; i++ {
				runtime.Gosched()
			}
			for i := 0; i < nr; i++ {
				var x int
				cs.RecvMsg(&x)
			}
		}()
		go func() {
			defer wg.Done()
			switch by {
			case 0:
				cs.Context()
			case 1:
				cs.Trailer()
			case 2:
				cs.Context()
				cs.Trailer()
			case 3:
				cs.Header()
			}
		}()
		if rng.Intn(6) == 0 {
			cancel()
		}
		wg.Wait()
		cancel()
		streams++
		sends += int64(ns)
		recvs += int64(nr)
		bys++
		out.Evaluations++
	}
	out.hitN("C10.stream-programs", streams)
	out.hitN("C10.stream-sends", sends)
	out.hitN("C10.stream-recvs", recvs)
	out.nontrivial(vHashStrings([]string{"race-stream", fmt.Sprint(env.Batch)}))
	out.nontrivial(vHashStrings([]string{"race-stream-b", fmt.Sprint(env.Batch)}))
	out.sample(map[string]interface{}{"workload": "stream", "programs": streams, "sends": sends, "recvs": recvs})
	out.write(env.Out)
}
