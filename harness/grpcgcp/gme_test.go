//go:build verif
// +build verif

package grpcgcp

// gme: GCPMultiEndpoint over real gRPC and in-process bufconn servers.
// C15: routing observed at the servers vs a model of the MultiEndpoints over
// the injected up/down pattern; pool set / monitors / dial log after updates.
// C16: enumerated invalid updates and dial failures (at construction and at
// update): error returned, routing snapshot unchanged, nothing leaked.

import (
	"context"
	"fmt"
	"net"
	"runtime"
	"sort"
	"strings"
	"sync"
	"sync/atomic"
	"testing"
	"time"

	pb "github.com/GoogleCloudPlatform/grpc-gcp-go/grpcgcp/grpc_gcp"
	"github.com/GoogleCloudPlatform/grpc-gcp-go/grpcgcp/multiendpoint"
	"google.golang.org/grpc"
	"google.golang.org/grpc/backoff"
	"google.golang.org/grpc/connectivity"
	"google.golang.org/grpc/credentials/insecure"
	"google.golang.org/grpc/test/bufconn"
	"google.golang.org/protobuf/types/known/wrapperspb"
)

type gmEP struct {
	name string
	mu   sync.Mutex
	lis  *bufconn.Listener
	srv  *grpc.Server
	up   bool
	hits int
}

func (e *gmEP) start() {
	e.mu.Lock()
	defer e.mu.Unlock()
	e.lis = bufconn.Listen(1 << 16)
	e.srv = grpc.NewServer(grpc.UnknownServiceHandler(func(srv interface{}, stream grpc.ServerStream) error {
		var in wrapperspb.StringValue
		if err := stream.RecvMsg(&in); err != nil {
			return err
		}
		e.mu.Lock()
		e.hits++
		e.mu.Unlock()
		return stream.SendMsg(wrapperspb.String(e.name))
	}))
	e.up = true
	go e.srv.Serve(e.lis)
}

func (e *gmEP) stop() {
	e.mu.Lock()
	e.up = false
	s := e.srv
	e.mu.Unlock()
	if s != nil {
		s.Stop()
	}
}

func (e *gmEP) dial(ctx context.Context) (net.Conn, error) {
	e.mu.Lock()
	up, lis := e.up, e.lis
	e.mu.Unlock()
	if !up {
		return nil, fmt.Errorf("endpoint %s down", e.name)
	}
	return lis.DialContext(ctx)
}

// gmClientStacks counts goroutines with client-side gRPC / monitor frames.
func gmClientStacks() (int, string) {
	buf := make([]byte, 8<<20)
	n := runtime.Stack(buf, true)
	c := 0
	var sample []string
	for _, g := range strings.Split(string(buf[:n]), "\n\n") {
		for _, mark := range []string{"grpcgcp.(*monitoredConn).monitor", "grpc.(*addrConn)", "transport.(*http2Client)", "grpc.(*ccBalancerWrapper)", "grpc.(*ClientConn)", "grpc.(*ccResolverWrapper)"} {
			if strings.Contains(g, mark) {
				c++
				if len(sample) < 3 {
					sample = append(sample, mark)
				}
				break
			}
		}
	}
	return c, strings.Join(sample, ",")
}

func gmMonitors() int {
	buf := make([]byte, 8<<20)
	n := runtime.Stack(buf, true)
	return strings.Count(string(buf[:n]), "grpcgcp.(*monitoredConn).monitor(")
}

var gmEPNames = []string{"A", "B", "C", "D", "E"}

// gmNoName: the context carries no MultiEndpoint name at all (as opposed to
// naming the MultiEndpoint "").
const gmNoName = "<no name in context>"

type gmWalk struct {
	rng    *vRand
	eps    map[string]*gmEP
	up     map[string]bool
	dialMu sync.Mutex
	dials  map[string]int
	dialN  int
	failAt int // fail the k-th dial (absolute count); 0 = never
	// runs inside the failing dial, i.e. while UpdateMultiEndpoints is in progress
	dialHook func()
	// 1: an RPC / update / Close did not return (watchdog)
	blocked int32
	conns   map[string][]*grpc.ClientConn
	order   []string            // dial log
	mes     map[string][]string // model
	def     string
	gme     *GCPMultiEndpoint
	log     []string
	viol    *vViol
	hits    map[string]int64
	incon   int64
	dirty   bool
	idx     int64
	// endpoints dialled by a rejected update (C16)
	rolledBack []string
	slowDial   bool
	// names of MultiEndpoints configured at some earlier point (a removed name is an unknown name)
	everNames map[string]bool
}

func (w *gmWalk) say(f string, a ...interface{}) { w.log = append(w.log, fmt.Sprintf(f, a...)) }
func (w *gmWalk) hit(r string)                   { w.hits[r]++ }
func (w *gmWalk) fail(rule, class, f string, a ...interface{}) {
	if w.viol != nil {
		return
	}
	sig := rule
	if class != "" {
		sig += ":" + class
	}
	w.viol = &vViol{Sig: sig, Rule: rule, Detail: fmt.Sprintf(f, a...), Case: w.idx}
}

func gmNewWalk(rng *vRand, idx int64) *gmWalk {
	w := &gmWalk{rng: rng, eps: map[string]*gmEP{}, up: map[string]bool{}, dials: map[string]int{}, conns: map[string][]*grpc.ClientConn{}, hits: map[string]int64{}, idx: idx}
	for _, n := range gmEPNames {
		w.eps[n] = &gmEP{name: n}
		w.eps[n].start()
		w.up[n] = true
	}
	return w
}

func (w *gmWalk) stopServers() {
	for _, e := range w.eps {
		e.stop()
	}
}

func (w *gmWalk) dialFunc(ctx context.Context, target string, dopts ...grpc.DialOption) (*grpc.ClientConn, error) {
	w.dialMu.Lock()
	w.dialN++
	n := w.dialN
	fail := w.failAt != 0 && n == w.failAt
	w.order = append(w.order, target)
	slow := w.slowDial
	hook := w.dialHook
	w.dialMu.Unlock()
	if slow {
		time.Sleep(3 * time.Millisecond)
	}
	if fail && hook != nil {
		hook()
	}
	if fail {
		return nil, fmt.Errorf("verif: injected dial failure for %s", target)
	}
	c, err := grpc.DialContext(ctx, target, dopts...)
	w.dialMu.Lock()
	w.dials[target]++
	if c != nil {
		w.conns[target] = append(w.conns[target], c)
	}
	w.dialMu.Unlock()
	return c, err
}

func (w *gmWalk) dopts() []grpc.DialOption {
	return []grpc.DialOption{
		grpc.WithTransportCredentials(insecure.NewCredentials()),
		grpc.WithContextDialer(func(ctx context.Context, s string) (net.Conn, error) {
			e, ok := w.eps[s]
			if !ok {
				return nil, fmt.Errorf("no such endpoint %q", s)
			}
			return e.dial(ctx)
		}),
		grpc.WithConnectParams(grpc.ConnectParams{Backoff: backoff.Config{BaseDelay: 5 * time.Millisecond, Multiplier: 1.1, MaxDelay: 20 * time.Millisecond}, MinConnectTimeout: time.Second}),
	}
}

func (w *gmWalk) genOpts() *GCPMultiEndpointOptions {
	n := 1 + w.rng.Intn(3)
	names := []string{"default", "read", "write", "x", ""} // the empty string is a legal MultiEndpoint name
	for i := len(names) - 1; i > 0; i-- {
		j := w.rng.Intn(i + 1)
		names[i], names[j] = names[j], names[i]
	}
	m := map[string]*multiendpoint.MultiEndpointOptions{}
	for _, nm := range names[:n] {
		k := 1 + w.rng.Intn(4)
		p := make([]int, len(gmEPNames))
		for i := range p {
			p[i] = i
		}
		for i := len(p) - 1; i > 0; i-- {
			j := w.rng.Intn(i + 1)
			p[i], p[j] = p[j], p[i]
		}
		var l []string
		for _, i := range p[:k] {
			l = append(l, gmEPNames[i])
		}
		m[nm] = &multiendpoint.MultiEndpointOptions{Endpoints: l}
	}
	return &GCPMultiEndpointOptions{
		GRPCgcpConfig:  &pb.ApiConfig{ChannelPool: &pb.ChannelPoolConfig{MinSize: 1, MaxSize: 2}},
		MultiEndpoints: m,
		Default:        names[w.rng.Intn(n)],
		DialFunc:       w.dialFunc,
	}
}

func gmDescribe(o *GCPMultiEndpointOptions) string {
	desc := []string{}
	for n, m := range o.MultiEndpoints {
		desc = append(desc, fmt.Sprintf("%s=%v", n, m.Endpoints))
	}
	sort.Strings(desc)
	return fmt.Sprintf("%v default=%s", desc, o.Default)
}

// call issues one RPC (unary or streaming) and returns the server that answered.
// call issues one RPC under a watchdog: an RPC that does not return although
// its context has a 2s deadline is blocked inside the library (e.g. on a lock
// that an earlier call left held); once that happened every later call reports
// BLOCKED at once.
func (w *gmWalk) call(name string, stream bool) (string, error) {
	if atomic.LoadInt32(&w.blocked) == 1 {
		return "", fmt.Errorf("BLOCKED: an earlier RPC never returned")
	}
	type result struct {
		res string
		err error
	}
	ch := make(chan result, 1)
	go func() {
		r, e := w.call1(name, stream)
		ch <- result{r, e}
	}()
	select {
	case r := <-ch:
		return r.res, r.err
	case <-time.After(20 * time.Second):
		atomic.StoreInt32(&w.blocked, 1)
		return "", fmt.Errorf("BLOCKED: the RPC did not return within 20s although its context has a 2s deadline")
	}
}

func (w *gmWalk) call1(name string, stream bool) (res string, err error) {
	defer func() {
		if r := recover(); r != nil {
			buf := make([]byte, 1<<14)
			st := string(buf[:runtime.Stack(buf, false)])
			err = fmt.Errorf("PANIC: %v @%s", r, vPanicSite(st, "grpcgcp."))
		}
	}()
	ctx, cancel := context.WithTimeout(context.Background(), 2*time.Second)
	defer cancel()
	if name != gmNoName {
		ctx = NewMEContext(ctx, name)
	}
	var out wrapperspb.StringValue
	if !stream {
		if err := w.gme.Invoke(ctx, "/verif.S/Echo", wrapperspb.String("hi"), &out); err != nil {
			return "", err
		}
		return out.Value, nil
	}
	cs, err := w.gme.NewStream(ctx, &grpc.StreamDesc{StreamName: "Echo", ClientStreams: true, ServerStreams: true}, "/verif.S/EchoStream")
	if err != nil {
		return "", err
	}
	if err := cs.SendMsg(wrapperspb.String("hi")); err != nil {
		return "", err
	}
	if err := cs.CloseSend(); err != nil {
		return "", err
	}
	if err := cs.RecvMsg(&out); err != nil {
		return "", err
	}
	return out.Value, nil
}

// guarded runs f (a call into the library) under a 60s watchdog.
func (w *gmWalk) guarded(f func() error) (err error, hung bool) {
	ch := make(chan error, 1)
	go func() { ch <- f() }()
	select {
	case err = <-ch:
		return err, false
	case <-time.After(60 * time.Second):
		atomic.StoreInt32(&w.blocked, 1)
		return nil, true
	}
}

func (w *gmWalk) openConn(e string) *grpc.ClientConn {
	w.dialMu.Lock()
	defer w.dialMu.Unlock()
	var open *grpc.ClientConn
	n := 0
	for _, c := range w.conns[e] {
		if c.GetState() != connectivity.Shutdown {
			open = c
			n++
		}
	}
	if n > 1 {
		w.fail("C15.one-pool", "", "endpoint %s has %d open pools", e, n)
	}
	return open
}

func (w *gmWalk) openCount() int {
	w.dialMu.Lock()
	defer w.dialMu.Unlock()
	n := 0
	for _, cs := range w.conns {
		for _, c := range cs {
			if c.GetState() != connectivity.Shutdown {
				n++
			}
		}
	}
	return n
}

func (w *gmWalk) mentioned() map[string]bool {
	m := map[string]bool{}
	for _, l := range w.mes {
		for _, e := range l {
			m[e] = true
		}
	}
	return m
}

// settle waits until every open pool's READY-ness has matched the injected
// up/down pattern continuously for the stability window.
func (w *gmWalk) settle() bool {
	deadline := time.Now().Add(15 * time.Second)
	stableSince := time.Time{}
	for time.Now().Before(deadline) {
		ok := true
		for e := range w.mentioned() {
			c := w.openConn(e)
			if c == nil {
				ok = false
				break
			}
			if (c.GetState() == connectivity.Ready) != w.up[e] {
				ok = false
				if w.up[e] {
					c.Connect()
				}
				break
			}
		}
		if !ok {
			stableSince = time.Time{}
		} else if stableSince.IsZero() {
			stableSince = time.Now()
		} else if time.Since(stableSince) > 100*time.Millisecond {
			return true
		}
		time.Sleep(2 * time.Millisecond)
	}
	return false
}

func (w *gmWalk) expect(name string) (string, bool) {
	l, ok := w.mes[name]
	if !ok || name == gmNoName {
		l = w.mes[w.def]
	}
	for _, e := range l {
		if w.up[e] {
			return e, true
		}
	}
	return "", false
}

func (w *gmWalk) ctxNames() []string {
	names := []string{gmNoName, "nosuch"}
	var ks []string
	for n := range w.mes {
		ks = append(ks, n)
	}
	sort.Strings(ks)
	names = append(names, ks...)
	var former []string
	for n := range w.everNames {
		if _, ok := w.mes[n]; !ok {
			former = append(former, n)
		}
	}
	sort.Strings(former)
	return append(names, former...)
}

func (w *gmWalk) checkRouting(tag string) {
	for _, n := range w.ctxNames() {
		want, any := w.expect(n)
		if !any {
			w.hit("C15.route-skipped-all-down")
			continue
		}
		stream := w.rng.Intn(3) == 0
		var got string
		var err error
		ok := false
		for t0 := time.Now(); time.Since(t0) < 10*time.Second; time.Sleep(2 * time.Millisecond) {
			got, err = w.call(n, stream)
			if err != nil && strings.HasPrefix(err.Error(), "PANIC") {
				w.fail("C16.rpc-panic", "", "%s: RPC for MultiEndpoint %q panicked: %v", tag, n, err)
				return
			}
			if err == nil && got == want {
				ok = true
				break
			}
		}
		kind := "known"
		if n == gmNoName {
			kind = "no-name"
		} else if _, ok := w.mes[n]; !ok {
			kind = "unknown-name"
			if w.everNames[n] {
				kind = "removed-name"
				w.hit("C15.route:removed-name")
			}
		}
		w.hit("C15.route")
		w.hit("C15.route:" + kind)
		if stream {
			w.hit("C15.route-stream")
		}
		if !ok {
			w.fail("C15.route", kind, "%s: context %q routed to %q (err %v), model says %q (lists %v default %s, up %v)", tag, n, got, err, want, w.mes, w.def, w.up)
			return
		}
	}
}

func (w *gmWalk) checkPools(tag string) {
	m := w.mentioned()
	open := 0
	w.dialMu.Lock()
	all := []string{}
	for e := range w.conns {
		all = append(all, e)
	}
	w.dialMu.Unlock()
	for _, e := range all {
		c := w.openConn(e)
		if c != nil {
			open++
			if !m[e] {
				w.fail("C15.obsolete-open", "", "%s: the pool of %s (no longer mentioned) is still open", tag, e)
			}
		}
	}
	for e := range m {
		if w.openConn(e) == nil {
			w.fail("C15.missing-pool", "", "%s: no open pool for mentioned endpoint %s", tag, e)
		}
	}
	w.hit("C15.pools")
	var mon int
	for t0 := time.Now(); time.Since(t0) < 10*time.Second; time.Sleep(time.Millisecond) {
		mon = gmMonitors()
		if mon == open {
			break
		}
	}
	if mon != open {
		w.fail("C15.monitors", "", "%s: %d monitor goroutines for %d open pools", tag, mon, open)
	}
}

func (w *gmWalk) setModel(o *GCPMultiEndpointOptions) {
	if w.everNames == nil {
		w.everNames = map[string]bool{}
	}
	for n := range w.mes {
		w.everNames[n] = true
	}
	w.mes = map[string][]string{}
	for n, m := range o.MultiEndpoints {
		w.mes[n] = m.Endpoints
	}
	w.def = o.Default
}

func (w *gmWalk) update() {
	o := w.genOpts()
	concurrent := w.rng.Intn(4) == 0
	w.say("update %s%s", gmDescribe(o), map[bool]string{true: " (two concurrent calls with the same options)", false: ""}[concurrent])
	before := map[string]int{}
	w.dialMu.Lock()
	for k, v := range w.dials {
		before[k] = v
	}
	w.dialMu.Unlock()
	kept := w.mentioned()
	keptReady := map[string]bool{}
	for e := range kept {
		if c := w.openConn(e); c != nil && c.GetState() == connectivity.Ready && w.up[e] {
			keptReady[e] = true
		}
	}
	// RPCs in flight while the update is applied (a third of the updates): they
	// may fail while pools are swapped, but no RPC may panic
	var rpcWG sync.WaitGroup
	var stopRPC int32
	rpcPanic := make(chan string, 4)
	if w.rng.Intn(3) == 0 {
		w.hit("C15.rpcs-during-update")
		// widen whatever windows pickConn has between its critical sections: a
		// short sleep at each of its instrumented yield sites (lock operations)
		verifYieldFn = func(site string) {
			if strings.HasPrefix(site, "pickConn/") {
				time.Sleep(500 * time.Microsecond)
			}
		}
		names := w.ctxNames()
		for g := 0; g < 3; g++ {
			rpcWG.Add(1)
			go func(g int) {
				defer rpcWG.Done()
				for i := 0; atomic.LoadInt32(&stopRPC) == 0; i++ {
					_, err := w.call(names[(g+i)%len(names)], i%4 == 0)
					if err != nil && strings.HasPrefix(err.Error(), "PANIC") {
						select {
						case rpcPanic <- err.Error():
						default:
						}
						return
					}
				}
			}(g)
		}
		time.Sleep(time.Millisecond)
	}
	defer func() {
		atomic.StoreInt32(&stopRPC, 1)
		rpcWG.Wait()
		verifYieldFn = nil
		select {
		case p := <-rpcPanic:
			w.fail("C15.rpc-panic", "during-update", "an RPC issued while UpdateMultiEndpoints was running panicked: %s", p)
		default:
		}
	}()
	var err error
	if concurrent {
		// the same reconfiguration issued twice concurrently (two components
		// reacting to the same event); dials are slowed down a little so that the
		// calls overlap if the implementation lets them
		w.hit("C15.concurrent-updates")
		w.dialMu.Lock()
		w.slowDial = true
		w.dialMu.Unlock()
		o2 := *o
		errs := make(chan error, 2)
		go func() { errs <- w.gme.UpdateMultiEndpoints(o) }()
		go func() { errs <- w.gme.UpdateMultiEndpoints(&o2) }()
		e1, e2 := <-errs, <-errs
		w.dialMu.Lock()
		w.slowDial = false
		w.dialMu.Unlock()
		if e1 != nil {
			err = e1
		} else {
			err = e2
		}
	} else {
		err = w.gme.UpdateMultiEndpoints(o)
	}
	if err != nil {
		w.fail("C15.update-error", "", "valid update rejected: %v", err)
		return
	}
	w.setModel(o)
	now := w.mentioned()
	// every MultiEndpoint already reflects the connectivity of the kept pools
	var names []string
	for n := range w.mes {
		names = append(names, n)
	}
	sort.Strings(names)
	for _, n := range names {
		l := w.mes[n]
		topKept := ""
		for _, e := range l {
			if keptReady[e] {
				topKept = e
				break
			}
		}
		if topKept == "" || w.dirty {
			w.hit("C15.immediate-skipped")
			continue
		}
		adm := map[string]bool{topKept: true}
		for _, e := range l {
			if e == topKept {
				break
			}
			if !kept[e] || !keptReady[e] {
				adm[e] = true // a newly dialled / not-known-ready higher-priority endpoint may already be READY
			}
		}
		got, err := w.call(n, false)
		w.hit("C15.immediate")
		if err != nil || !adm[got] {
			w.fail("C15.immediate", "", "MultiEndpoint %q %v routed to %q (err %v) right after the update, admissible %v", n, l, got, err, adm)
			return
		}
	}
	w.dialMu.Lock()
	for e, n := range w.dials {
		if kept[e] && now[e] {
			w.hit("C15.no-redial")
			if n != before[e] {
				w.fail("C15.redial", "", "kept endpoint %s was re-dialled (%d -> %d dials)", e, before[e], n)
			}
		}
		if !kept[e] && now[e] && n != before[e]+1 {
			w.fail("C15.dial-once", "", "new endpoint %s dialled %d times", e, n-before[e])
		}
	}
	w.dialMu.Unlock()
	w.checkPools("after update")
}

// flipDuringRejectedUpdate: an endpoint's pool loses or regains connectivity
// while UpdateMultiEndpoints is in progress (inside a slow dial) and that
// update is then rejected (the dial fails). Routing must follow the new
// connectivity within bounded time all the same.
func (w *gmWalk) flipDuringRejectedUpdate() {
	ment := w.mentioned()
	var fresh, cand []string
	for _, e := range gmEPNames {
		if !ment[e] {
			fresh = append(fresh, e)
		} else if w.openConn(e) != nil {
			cand = append(cand, e)
		}
	}
	if len(fresh) == 0 || len(cand) == 0 {
		w.hit("C15.flip-during-update-skipped")
		return
	}
	if !w.settle() {
		w.incon++
		w.say("inconclusive: pools did not settle")
		return
	}
	e := cand[w.rng.Intn(len(cand))]
	o := &GCPMultiEndpointOptions{GRPCgcpConfig: &pb.ApiConfig{}, MultiEndpoints: map[string]*multiendpoint.MultiEndpointOptions{}, Default: w.def, DialFunc: w.dialFunc}
	for n, l := range w.mes {
		o.MultiEndpoints[n] = gmMeo(l...)
	}
	o.MultiEndpoints["zz-fresh"] = gmMeo(fresh[0])
	w.say("update %s whose dial of %s fails; meanwhile endpoint %s goes %s", gmDescribe(o), fresh[0], e, map[bool]string{true: "down", false: "up"}[w.up[e]])
	observed := false
	w.dialMu.Lock()
	w.failAt = w.dialN + 1
	w.dialHook = func() {
		c := w.openConn(e)
		if w.up[e] {
			w.eps[e].stop()
			w.up[e] = false
		} else {
			w.eps[e].start()
			w.up[e] = true
		}
		for t0 := time.Now(); c != nil && time.Since(t0) < 10*time.Second; time.Sleep(2 * time.Millisecond) {
			if (c.GetState() == connectivity.Ready) == w.up[e] {
				observed = true
				break
			}
			if w.up[e] {
				c.Connect()
			}
		}
		// the pool's monitor has seen the change by now and is informing the MultiEndpoints
		time.Sleep(200 * time.Millisecond)
	}
	w.dialMu.Unlock()
	err := w.gme.UpdateMultiEndpoints(o)
	w.dialMu.Lock()
	w.failAt = 0
	w.dialHook = nil
	w.dialMu.Unlock()
	w.dirty = true
	if err == nil {
		// (whether this update is rejected is C16's business)
		w.setModel(o)
		w.say("  -> accepted")
		return
	}
	w.say("  -> rejected: %v", err)
	if !observed {
		w.incon++
		w.say("inconclusive: the pool's state did not change during the update")
		return
	}
	if !w.settle() {
		w.incon++
		w.say("inconclusive: pools did not settle")
		return
	}
	w.dirty = false
	w.hit("C15.flip-during-rejected-update")
	w.checkRouting("after a connectivity change during a rejected update")
}

func (w *gmWalk) closeAndCheck(baseline int) {
	if w.rng.Intn(3) == 0 {
		// the application closed one pool's ClientConn itself (it got it from its
		// own DialFunc): Close() must still stop that pool's monitor
		w.dialMu.Lock()
		var open []*grpc.ClientConn
		for _, cs := range w.conns {
			for _, c := range cs {
				if c.GetState() != connectivity.Shutdown {
					open = append(open, c)
				}
			}
		}
		w.dialMu.Unlock()
		if len(open) > 0 {
			c := open[w.rng.Intn(len(open))]
			w.say("the owner closes the ClientConn of %s before Close()", c.Target())
			c.Close()
			w.hit("C16.owner-closed-conn")
		}
	}
	_, hung := w.guarded(func() error { return w.gme.Close() })
	if hung {
		w.fail("C16.blocked", "close", "Close() did not return within 60s")
		return
	}
	w.hit("C16.close")
	w.dialMu.Lock()
	for e, cs := range w.conns {
		for _, c := range cs {
			if c.GetState() != connectivity.Shutdown {
				w.fail("C16.close-pool-open", "", "the pool of %s is not shut down after Close()", e)
			}
		}
	}
	w.dialMu.Unlock()
	w.leakCheck(baseline, "after Close()")
}

func (w *gmWalk) leakCheck(baseline int, tag string) {
	var after int
	var what string
	for t0 := time.Now(); time.Since(t0) < 10*time.Second; time.Sleep(2 * time.Millisecond) {
		if after, what = gmClientStacks(); after <= baseline {
			break
		}
	}
	w.hit("C16.no-goroutine-left")
	if after > baseline {
		cls := "grpc"
		if strings.Contains(what, "monitor") {
			cls = "monitor"
		}
		w.fail("C16.goroutine-leak", cls, "%s: %d client-side goroutines remain (baseline %d): %s", tag, after, baseline, what)
	}
}

// ---------------------------------------------------------------- C15 walk

func gmRunWalk(rng *vRand, idx int64, nOps int) *gmWalk {
	w := gmNewWalk(rng, idx)
	defer w.stopServers()
	baseline, _ := gmClientStacks()
	o := w.genOpts()
	gme, err := NewGCPMultiEndpoint(o, w.dopts()...)
	if err != nil {
		w.fail("C15.construct", "", "valid options rejected: %v", err)
		return w
	}
	w.gme = gme
	w.setModel(o)
	w.say("init %s", gmDescribe(o))
	w.checkPools("after construction")
	for i := 0; i < nOps && w.viol == nil; i++ {
		switch x := w.rng.Intn(10); {
		case x < 2:
			w.update()
		case x < 3:
			w.flipDuringRejectedUpdate()
		case x < 6:
			e := gmEPNames[w.rng.Intn(len(gmEPNames))]
			w.dirty = true
			if w.up[e] {
				w.say("down %s", e)
				w.eps[e].stop()
				w.up[e] = false
				w.hit("C15.outage")
			} else {
				w.say("up %s", e)
				w.eps[e].start()
				w.up[e] = true
				w.hit("C15.recovery")
			}
		default:
			w.say("settle+route")
			if !w.settle() {
				w.incon++
				w.say("  inconclusive: pools did not settle")
				continue
			}
			w.dirty = false
			w.checkRouting("after settle")
		}
	}
	if w.viol == nil {
		w.closeAndCheck(baseline)
	} else {
		gme.Close()
	}
	return w
}

// ---------------------------------------------------------------- C16 enumeration

type gmBad struct {
	kind string
	fail int // fail the k-th dial of the call; 0 = none
}

var gmBadKinds = []gmBad{
	{"default-missing", 0}, {"default-removed", 0}, {"existing-empty", 0}, {"new-empty", 0},
	{"dial-fail", 1}, {"dial-fail", 2}, {"dial-fail", 3},
	{"valid", 0},
	// a MultiEndpoint whose list names one endpoint twice: whether such an update
	// is accepted or rejected is not specified, but it must be one or the other
	// completely (accepted: RPCs work and go there; rejected: nothing changed)
	{"dup-list", 0},
}

func gmMeo(l ...string) *multiendpoint.MultiEndpointOptions {
	return &multiendpoint.MultiEndpointOptions{Endpoints: l}
}

func (w *gmWalk) base16() *GCPMultiEndpointOptions {
	return &GCPMultiEndpointOptions{
		GRPCgcpConfig:  &pb.ApiConfig{},
		MultiEndpoints: map[string]*multiendpoint.MultiEndpointOptions{"default": gmMeo("A", "B"), "read": gmMeo("B", "A")},
		Default:        "default",
		DialFunc:       w.dialFunc,
	}
}

// mutate16 builds the update of the given kind on top of the current model.
func (w *gmWalk) mutate16(b gmBad) *GCPMultiEndpointOptions {
	o := &GCPMultiEndpointOptions{GRPCgcpConfig: &pb.ApiConfig{}, MultiEndpoints: map[string]*multiendpoint.MultiEndpointOptions{}, Default: w.def, DialFunc: w.dialFunc}
	for n, l := range w.mes {
		o.MultiEndpoints[n] = gmMeo(l...)
	}
	perm := func(k int) []string {
		p := append([]string{}, gmEPNames...)
		for i := len(p) - 1; i > 0; i-- {
			j := w.rng.Intn(i + 1)
			p[i], p[j] = p[j], p[i]
		}
		return p[:k]
	}
	// every kind also carries legitimate-looking changes, so that a partial
	// application is visible in the routing snapshot
	var names []string
	for n := range w.mes {
		names = append(names, n)
	}
	sort.Strings(names)
	for _, n := range names {
		if w.rng.Intn(2) == 0 {
			o.MultiEndpoints[n] = gmMeo(perm(1 + w.rng.Intn(3))...)
		}
	}
	if b.kind != "valid" && b.kind != "dup-list" && b.kind != "default-missing" && b.kind != "default-removed" && len(names) > 1 && w.rng.Intn(2) == 0 {
		// an invalid update that also names another (existing) default: after the
		// rejection no-name / unknown-name RPCs must still use the old default
		for _, n := range names {
			if n != w.def {
				o.Default = n
				break
			}
		}
	}
	if b.kind != "valid" && b.kind != "dup-list" && b.kind != "default-removed" && len(names) > 1 && w.rng.Intn(2) == 0 {
		// an invalid update that also drops a MultiEndpoint: after the rejection
		// RPCs naming it (or using it as the default) are routed as before
		drop := names[w.rng.Intn(len(names))]
		if drop == o.Default {
			for _, n := range names {
				if n != drop {
					o.Default = n
					break
				}
			}
		}
		delete(o.MultiEndpoints, drop)
		w.hit("C16.invalid-update-drops-me")
		names = append([]string{}, names...)
		for i, n := range names {
			if n == drop {
				names = append(names[:i], names[i+1:]...)
				break
			}
		}
	}
	switch b.kind {
	case "default-missing":
		o.Default = "zzz"
	case "default-removed":
		// the default names a MultiEndpoint that exists now but has no options in this update
		n := names[w.rng.Intn(len(names))]
		o.Default = n
		delete(o.MultiEndpoints, n)
	case "existing-empty":
		o.MultiEndpoints[names[w.rng.Intn(len(names))]] = gmMeo()
	case "new-empty":
		o.MultiEndpoints["newme"] = gmMeo()
	case "dial-fail":
		// make sure at least b.fail new endpoints are mentioned
		ment := w.mentioned()
		var fresh []string
		for _, e := range gmEPNames {
			if !ment[e] {
				fresh = append(fresh, e)
			}
		}
		if len(fresh) < b.fail {
			return nil
		}
		o.MultiEndpoints["fresh"] = gmMeo(fresh...)
	case "dup-list":
		e := gmEPNames[w.rng.Intn(len(gmEPNames))]
		o.MultiEndpoints[names[w.rng.Intn(len(names))]] = gmMeo(e, e)
	case "valid":
		if w.rng.Intn(2) == 0 {
			o.MultiEndpoints["extra"] = gmMeo(perm(2)...)
		}
		if len(w.rolledBack) > 0 {
			// endpoints whose pools were dialled and rolled back by a rejected update
			// get a MultiEndpoint of their own: they must be dialled afresh
			o.MultiEndpoints["fresh"] = gmMeo(w.rolledBack...)
			w.rolledBack = nil
		}
		if w.rng.Intn(3) == 0 && len(names) > 1 {
			delete(o.MultiEndpoints, names[len(names)-1])
			if o.Default == names[len(names)-1] {
				o.Default = names[0]
			}
		}
	}
	return o
}

func (w *gmWalk) snapshot() (string, bool) {
	var r []string
	names := append(w.ctxNames(), "newme", "fresh", "extra")
	seen := map[string]bool{}
	for _, n := range names {
		if seen[n] {
			continue
		}
		seen[n] = true
		var last string
		for t0 := time.Now(); time.Since(t0) < 5*time.Second; time.Sleep(time.Millisecond) {
			got, err := w.call(n, false)
			if err == nil {
				last = got
				break
			}
			last = "ERR:" + err.Error()
			if strings.HasPrefix(err.Error(), "PANIC") {
				break
			}
		}
		r = append(r, n+"->"+last)
	}
	s := strings.Join(r, " ")
	return s, !strings.Contains(s, "ERR:")
}

func (w *gmWalk) settleAllReady() bool {
	var since time.Time
	for t0 := time.Now(); time.Since(t0) < 15*time.Second; time.Sleep(2 * time.Millisecond) {
		ok := true
		w.dialMu.Lock()
		for _, cs := range w.conns {
			for _, c := range cs {
				if st := c.GetState(); st != connectivity.Shutdown && st != connectivity.Ready {
					ok = false
					c.Connect()
				}
			}
		}
		w.dialMu.Unlock()
		if !ok {
			since = time.Time{}
		} else if since.IsZero() {
			since = time.Now()
		} else if time.Since(since) > 100*time.Millisecond {
			return true
		}
	}
	return false
}

// gmDelayedSwitchRemoved: a MultiEndpoint with a switching delay; an accepted
// update adds a higher-priority endpoint (a delayed switch to it becomes
// pending once its pool is READY), a second accepted update removes it again
// inside the delay. After the delay no RPC may panic or use the closed pool.
func gmDelayedSwitchRemoved(rng *vRand, idx int64) *gmWalk {
	w := gmNewWalk(rng, idx)
	defer w.stopServers()
	baseline, _ := gmClientStacks()
	delay := time.Duration(60+rng.Intn(60)) * time.Millisecond
	mk := func(l ...string) *GCPMultiEndpointOptions {
		return &GCPMultiEndpointOptions{GRPCgcpConfig: &pb.ApiConfig{}, Default: "default", DialFunc: w.dialFunc,
			MultiEndpoints: map[string]*multiendpoint.MultiEndpointOptions{"default": {Endpoints: l, SwitchingDelay: delay}}}
	}
	g, err := NewGCPMultiEndpoint(mk("A"), w.dopts()...)
	if err != nil {
		w.fail("C16.construct", "", "valid options rejected: %v", err)
		return w
	}
	w.gme = g
	w.setModel(mk("A"))
	w.say("init default=[A] switching delay %v", delay)
	if !w.settleAllReady() {
		w.incon++
		w.cleanup()
		return w
	}
	w.say("update default=[B A] (accepted): B is dialled, a delayed switch to B becomes pending when B is READY")
	if err := g.UpdateMultiEndpoints(mk("B", "A")); err != nil {
		w.fail("C15.update-error", "", "valid update rejected: %v", err)
		w.cleanup()
		return w
	}
	w.setModel(mk("B", "A"))
	// wait until B's pool is READY (the switch is then pending for `delay`)
	for t0 := time.Now(); time.Since(t0) < 5*time.Second; time.Sleep(time.Millisecond) {
		if c := w.openConn("B"); c != nil && c.GetState() == connectivity.Ready {
			break
		}
	}
	time.Sleep(time.Duration(rng.Intn(20)) * time.Millisecond)
	w.say("update default=[A] (accepted) inside the delay: B is removed, its pool closed")
	if err := g.UpdateMultiEndpoints(mk("A")); err != nil {
		w.fail("C15.update-error", "", "valid update rejected: %v", err)
		w.cleanup()
		return w
	}
	w.setModel(mk("A"))
	time.Sleep(delay + 40*time.Millisecond)
	w.hit("C16.delayed-switch-target-removed")
	for i := 0; i < 3; i++ {
		got, err := w.call(gmNoName, false)
		if err != nil && strings.HasPrefix(err.Error(), "PANIC") {
			w.fail("C16.rpc-after-update", "panic", "after two accepted updates (add B, remove B inside the switching delay) an RPC panicked: %v", err)
			break
		}
		if err != nil && strings.Contains(err.Error(), "closing") {
			w.fail("C16.rpc-after-update", "closed-pool", "after two accepted updates an RPC was sent to the closed pool of the removed endpoint: %v", err)
			break
		}
		if err == nil && got != "A" {
			w.fail("C16.rpc-after-update", "wrong-endpoint", "RPC served by %q, only A is configured", got)
			break
		}
	}
	if w.viol == nil {
		w.closeAndCheck(baseline)
	} else {
		w.cleanup()
	}
	return w
}

func gmRunC16(rng *vRand, idx int64) *gmWalk {
	if idx%8 == 5 {
		return gmDelayedSwitchRemoved(rng, idx)
	}
	w := gmNewWalk(rng, idx)
	defer w.stopServers()
	baseline, _ := gmClientStacks()
	// failed construction: dial failure at the k-th dial / invalid options
	if idx%4 == 3 {
		o := w.base16()
		kind := rng.Intn(4)
		switch kind {
		case 0:
			w.failAt = 1
		case 1:
			w.failAt = 2
		case 2:
			o.Default = "zzz"
		case 3:
			o.MultiEndpoints["read"] = gmMeo()
		}
		w.say("construct with %s (invalid kind %d, failing dial #%d)", gmDescribe(o), kind, w.failAt)
		g, err := NewGCPMultiEndpoint(o, w.dopts()...)
		w.hit("C16.failed-construction")
		if err == nil {
			w.fail("C16.accepted", "construct", "NewGCPMultiEndpoint accepted invalid options / a dial failure (kind %d)", kind)
			g.Close()
			return w
		}
		if n := w.openCount(); n > 0 {
			w.fail("C16.construct-leak", "pools", "failed construction left %d open pool(s) behind (dial log %v)", n, w.order)
			w.cleanup()
			return w
		}
		w.leakCheck(baseline, "after failed construction")
		w.cleanup()
		return w
	}
	o := w.base16()
	g, err := NewGCPMultiEndpoint(o, w.dopts()...)
	if err != nil {
		w.fail("C16.construct", "", "valid options rejected: %v", err)
		return w
	}
	w.gme = g
	w.setModel(o)
	w.say("init %s", gmDescribe(o))
	nUpd := 1 + rng.Intn(4)
	for i := 0; i < nUpd && w.viol == nil; i++ {
		b := gmBadKinds[rng.Intn(len(gmBadKinds))]
		if len(w.rolledBack) > 0 {
			b = gmBad{"valid", 0}
		}
		upd := w.mutate16(b)
		if upd == nil {
			continue
		}
		if !w.settleAllReady() {
			w.incon++
			w.say("inconclusive: pools did not become READY")
			break
		}
		s0, ok0 := w.snapshot()
		if strings.Contains(s0, "PANIC") {
			w.fail("C16.rpc-panic", "", "an RPC panicked: %s", s0)
			break
		}
		if !ok0 {
			w.incon++
			w.say("inconclusive: snapshot with errors: %s", s0)
			break
		}
		openBefore := w.openCount()
		w.dialMu.Lock()
		w.failAt = 0
		if b.fail > 0 {
			w.failAt = w.dialN + b.fail
		}
		dialsBefore := w.dialN
		w.dialMu.Unlock()
		w.say("update[%s fail@%d] %s", b.kind, b.fail, gmDescribe(upd))
		uerr, hung := w.guarded(func() error { return w.gme.UpdateMultiEndpoints(upd) })
		if hung {
			w.fail("C16.blocked", "update", "UpdateMultiEndpoints did not return within 60s (an earlier call left the object locked?)")
			break
		}
		w.dialMu.Lock()
		w.failAt = 0
		dialled := append([]string{}, w.order[dialsBefore:]...)
		w.dialMu.Unlock()
		w.say("  -> err=%v (dials in this call: %v)", uerr, dialled)
		w.hit("C16.update:" + b.kind)
		if b.kind == "valid" || (b.kind == "dup-list" && uerr == nil) {
			if uerr != nil {
				w.fail("C15.update-error", "", "valid update rejected: %v", uerr)
				break
			}
			w.setModel(upd)
			w.hit("C16.accepted-update")
			// no mentioned endpoint may be served by a pool that was closed earlier
			for e := range w.mentioned() {
				if w.openConn(e) == nil {
					w.fail("C16.closed-pool-reused", "", "after an accepted update endpoint %s is mentioned but has no open pool (dial log %v): a pool closed earlier is being reused", e, w.order)
				}
			}
			if _, ok := upd.MultiEndpoints["fresh"]; ok {
				w.hit("C16.redial-after-rollback")
			}
			w.settleAllReady()
			s1, _ := w.snapshot()
			if strings.Contains(s1, "PANIC") || strings.Contains(s1, "closing") {
				w.fail("C16.rpc-after-update", "accepted", "after an accepted update an RPC panicked or used a closed pool: %s", s1)
			}
			continue
		}
		if b.kind == "dial-fail" && uerr != nil && len(dialled) > 1 && i+1 < nUpd+1 {
			// pools dialled before the failing dial were rolled back
			w.rolledBack = append([]string{}, dialled[:len(dialled)-1]...)
			if i+1 == nUpd {
				nUpd++ // make room for the follow-up valid update
			}
		}
		if b.kind == "dial-fail" && len(dialled) < b.fail {
			// fewer dials than planned (should not happen: fresh endpoints are all new)
			w.incon++
			continue
		}
		if uerr == nil {
			w.fail("C16.accepted", b.kind, "UpdateMultiEndpoints accepted an invalid update (%s)", b.kind)
			break
		}
		w.hit("C16.rejected")
		if !w.settleAllReady() {
			w.incon++
			break
		}
		s1, _ := w.snapshot()
		w.hit("C16.routing-unchanged")
		if strings.Contains(s1, "BLOCKED") {
			w.fail("C16.rpc-after-update", "blocked", "after a rejected update (%s) RPCs do not return any more: %s", b.kind, s1)
			break
		}
		if strings.Contains(s1, "PANIC") {
			w.fail("C16.rpc-after-update", "panic", "after a rejected update an RPC panicked: %s", s1)
			break
		}
		if strings.Contains(s1, "closing") {
			w.fail("C16.rpc-after-update", "closed-pool", "after a rejected update an RPC was sent to a closed pool: %s", s1)
			break
		}
		if s0 != s1 {
			w.fail("C16.routing-changed", b.kind, "routing changed by a rejected update (%s): before [%s] after [%s]", b.kind, s0, s1)
			break
		}
		if n := w.openCount(); n != openBefore {
			w.fail("C16.pools-changed", b.kind, "a rejected update (%s) changed the number of open pools %d -> %d", b.kind, openBefore, n)
			break
		}
	}
	if w.viol == nil {
		w.closeAndCheck(baseline)
	} else {
		w.cleanup()
	}
	return w
}

func (w *gmWalk) cleanup() {
	if w.gme != nil && atomic.LoadInt32(&w.blocked) == 0 {
		done := make(chan struct{})
		go func() {
			defer close(done)
			defer func() { recover() }()
			w.gme.Close()
		}()
		select {
		case <-done:
		case <-time.After(20 * time.Second):
		}
	}
	w.dialMu.Lock()
	for _, cs := range w.conns {
		for _, c := range cs {
			c.Close()
		}
	}
	w.dialMu.Unlock()
	// monitors of leaked pools end when their conn is closed
	for t0 := time.Now(); time.Since(t0) < 3*time.Second; time.Sleep(5 * time.Millisecond) {
		if n, _ := gmClientStacks(); n == 0 {
			break
		}
	}
}

func gmCaseCount(e vEnv) int64 {
	if e.Prop == "C16" {
		if e.Tier == "thorough" {
			return 10000
		}
		return 160
	}
	if e.Tier == "thorough" {
		return 3000
	}
	return 48
}

func TestVerifGME(t *testing.T) {
	env := vGetEnv()
	if env.Prop == "" {
		t.Skip("VERIF_PROP not set")
	}
	out := vNewOut(env, "gme")
	nBlocked := 0
	for _, idx := range env.vCases(gmCaseCount(env)) {
		if nBlocked >= 2 {
			// every blocked walk costs the watchdog's patience and leaves goroutines behind
			out.inconclusive("batch stopped early: walks ended with calls that never return")
			break
		}
		rng := vNewRand(env.Seed, "gme/"+env.Prop, idx)
		var w *gmWalk
		if env.Prop == "C16" {
			w = gmRunC16(rng, idx)
		} else {
			w = gmRunWalk(rng, idx, 20)
		}
		out.Evaluations++
		for k, v := range w.hits {
			out.hitN(k, v)
		}
		if w.incon > 0 {
			out.Inconclusive["pools did not settle"] += w.incon
		}
		out.nontrivial(vHashStrings(w.log))
		if len(out.Samples) < 2 {
			out.sample(map[string]interface{}{"case": idx, "ops": w.log})
		}
		if atomic.LoadInt32(&w.blocked) == 1 {
			nBlocked++
		}
		if w.viol != nil {
			v := *w.viol
			v.Log = w.log
			if strings.HasPrefix(v.Rule, env.Prop+".") {
				out.violation(v)
			} else {
				out.addExtra("foreign:"+v.Sig, 1)
			}
			if env.Replay >= 0 {
				t.Logf("REPLAY case %d: %s: %s\n  %s", idx, v.Sig, v.Detail, strings.Join(w.log, "\n  "))
			}
		} else if env.Replay >= 0 {
			t.Logf("REPLAY case %d: no violation\n  %s", idx, strings.Join(w.log, "\n  "))
		}
	}
	out.write(env.Out)
}

// ---------------------------------------------------------------- C10 workload (built with -race)

// TestVerifRaceGME: RPC goroutines (all context kinds, unary and streaming) ||
// UpdateMultiEndpoints loop || endpoint outages || GCPConfig() || Close.
func TestVerifRaceGME(t *testing.T) {
	env := vGetEnv()
	if env.Prop == "" {
		t.Skip("VERIF_PROP not set")
	}
	out := vNewOut(env, "race-gme")
	runs := int64(3)
	budget := 1500 * time.Millisecond
	if env.Tier == "thorough" {
		runs, budget = 48, 3*time.Second
	}
	for _, idx := range env.vCases(runs) {
		w := gmNewWalk(vNewRand(env.Seed, "race-gme", idx), idx)
		o := w.genOpts()
		gme, err := NewGCPMultiEndpoint(o, w.dopts()...)
		if err != nil {
			out.inconclusive("race-gme: construction failed: " + err.Error())
			w.stopServers()
			continue
		}
		w.gme = gme
		var wg sync.WaitGroup
		t0 := time.Now()
		var updates, outages, cfgReads int64
		rpcs := make([]int64, 6)
		oks := make([]int64, 6)
		wg.Add(1)
		go func() { // reconfiguration + outages (single goroutine: it owns w.rng, w.up)
			defer wg.Done()
			for time.Since(t0) < budget {
				if w.rng.Intn(3) == 0 {
					e := gmEPNames[w.rng.Intn(len(gmEPNames))]
					if w.up[e] {
						w.eps[e].stop()
						w.up[e] = false
					} else {
						w.eps[e].start()
						w.up[e] = true
					}
					outages++
				} else {
					if err := gme.UpdateMultiEndpoints(w.genOpts()); err == nil {
						updates++
					}
				}
				time.Sleep(time.Duration(w.rng.Intn(3)) * time.Millisecond)
			}
		}()
		for g := 0; g < 6; g++ {
			wg.Add(1)
			go func(g int) {
				defer wg.Done()
				rng := vNewRand(env.Seed, "race-gme-rpc", idx*100+int64(g))
				names := []string{"", "nosuch", "default", "read", "write", "x"}
				for time.Since(t0) < budget {
					n := names[rng.Intn(len(names))]
					ctx, cancel := context.WithTimeout(context.Background(), 200*time.Millisecond)
					if n != "" {
						ctx = NewMEContext(ctx, n)
					}
					var outv wrapperspb.StringValue
					rpcs[g]++
					if rng.Intn(3) == 0 {
						if cs, err := gme.NewStream(ctx, &grpc.StreamDesc{StreamName: "Echo", ClientStreams: true, ServerStreams: true}, "/verif.S/EchoStream"); err == nil {
							if cs.SendMsg(wrapperspb.String("hi")) == nil {
								cs.CloseSend()
								if cs.RecvMsg(&outv) == nil {
									oks[g]++
								}
							}
						}
					} else if gme.Invoke(ctx, "/verif.S/Echo", wrapperspb.String("hi"), &outv) == nil {
						oks[g]++
					}
					cancel()
				}
			}(g)
		}
		wg.Add(1)
		go func() {
			defer wg.Done()
			for time.Since(t0) < budget {
				_ = gme.GCPConfig()
				cfgReads++
				time.Sleep(200 * time.Microsecond)
			}
		}()
		// Close() while RPCs are still being issued (half of the runs): callers
		// racing a shutdown may fail, but nothing may race or crash
		lateClose := idx%2 == 1
		var wg2 sync.WaitGroup
		stopLate := int32(0)
		if lateClose {
			for g := 0; g < 3; g++ {
				wg2.Add(1)
				go func(g int) {
					defer wg2.Done()
					defer func() { recover() }()
					for atomic.LoadInt32(&stopLate) == 0 {
						ctx, cancel := context.WithTimeout(context.Background(), 50*time.Millisecond)
						var outv wrapperspb.StringValue
						gme.Invoke(ctx, "/verif.S/Echo", wrapperspb.String("hi"), &outv)
						cancel()
					}
				}(g)
			}
		}
		if lateClose {
			// ... and while reconfigurations are still being applied
			wg2.Add(1)
			go func() {
				defer wg2.Done()
				defer func() { recover() }()
				r2 := vNewRand(env.Seed, "race-gme-late-upd", idx)
				w2 := &gmWalk{rng: r2, eps: w.eps, up: map[string]bool{}, dials: w.dials, conns: w.conns, hits: map[string]int64{}}
				_ = w2
				for atomic.LoadInt32(&stopLate) == 0 {
					o := &GCPMultiEndpointOptions{GRPCgcpConfig: &pb.ApiConfig{}, Default: "default", DialFunc: w.dialFunc,
						MultiEndpoints: map[string]*multiendpoint.MultiEndpointOptions{"default": {Endpoints: []string{gmEPNames[r2.Intn(5)], gmEPNames[r2.Intn(5)]}}, fmt.Sprintf("m%d", r2.Intn(3)): {Endpoints: []string{gmEPNames[r2.Intn(5)]}}}}
					if o.MultiEndpoints["default"].Endpoints[0] == o.MultiEndpoints["default"].Endpoints[1] {
						o.MultiEndpoints["default"].Endpoints = o.MultiEndpoints["default"].Endpoints[:1]
					}
					gme.UpdateMultiEndpoints(o)
				}
			}()
		}
		wg.Wait()
		gme.Close()
		if lateClose {
			time.Sleep(20 * time.Millisecond)
			atomic.StoreInt32(&stopLate, 1)
			wg2.Wait()
			gme.Close() // pools dialled by updates that overlapped the first Close
			out.hit("C10.gme-close-during-rpcs")
		}
		w.stopServers()
		var nr, nok int64
		for g := range rpcs {
			nr += rpcs[g]
			nok += oks[g]
		}
		out.Evaluations++
		out.hitN("C10.gme-rpcs", nr)
		out.hitN("C10.gme-rpcs-ok", nok)
		out.hitN("C10.gme-updates", updates)
		out.hitN("C10.gme-outages", outages)
		out.hitN("C10.gme-config-reads", cfgReads)
		out.nontrivial(vHashStrings([]string{"race-gme", fmt.Sprint(idx)}))
		out.sample(map[string]interface{}{"workload": "gme", "rpcs": nr, "ok": nok, "updates": updates, "outages": outages})
	}
	out.write(env.Out)
}
