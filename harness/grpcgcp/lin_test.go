//go:build verif
// +build verif

package grpcgcp

// lin: C01 under concurrency. Client-boundary histories of BIND completions,
// UNBIND completions and BOUND/UNBIND picks on a fixed all-READY pool are
// checked for linearizability with porcupine against a per-key register
// {unbound | channel}: bind writes-if-absent, unbind clears, a pick for a bound
// key must return that channel, a pick for an unbound key may return anything.

import (
	"context"
	"fmt"
	"sort"
	"sync"
	"testing"
	"time"

	"github.com/anishathalye/porcupine"

	pb "github.com/GoogleCloudPlatform/grpc-gcp-go/grpcgcp/grpc_gcp"
	"google.golang.org/grpc/balancer"
	"google.golang.org/grpc/connectivity"
	"google.golang.org/grpc/resolver"
)

type linIn struct {
	Kind string // bind | unbind | read
	Key  string
	Ch   int // bind: channel the BIND call ran on
}

type linOp struct {
	client int
	in     linIn
	out    int // read: channel returned, -1 = not placed
	call   int64
	ret    int64
}

var linModel = porcupine.Model{
	Partition: func(history []porcupine.Operation) [][]porcupine.Operation {
		m := map[string][]porcupine.Operation{}
		var keys []string
		for _, op := range history {
			k := op.Input.(linIn).Key
			if _, ok := m[k]; !ok {
				keys = append(keys, k)
			}
			m[k] = append(m[k], op)
		}
		sort.Strings(keys)
		var r [][]porcupine.Operation
		for _, k := range keys {
			r = append(r, m[k])
		}
		return r
	},
	Init: func() interface{} { return -1 },
	Step: func(state, input, output interface{}) (bool, interface{}) {
		st := state.(int)
		in := input.(linIn)
		switch in.Kind {
		case "bind":
			if st == -1 {
				return true, in.Ch
			}
			return true, st
		case "unbind":
			return true, -1
		default:
			out := output.(int)
			if st != -1 {
				return out == st, st
			}
			return true, st
		}
	},
	DescribeOperation: func(input, output interface{}) string {
		in := input.(linIn)
		switch in.Kind {
		case "bind":
			return fmt.Sprintf("bind(%s -> ch%d)", in.Key, in.Ch)
		case "unbind":
			return fmt.Sprintf("unbind(%s)", in.Key)
		}
		return fmt.Sprintf("pick(%s) = ch%d", in.Key, output.(int))
	},
}

func linRunHistory(rng *vRand, seed int64, idx int64) ([]linOp, string) {
	verifClockOn = false
	n := 2 + rng.Intn(3)
	workers := 3 + rng.Intn(6)
	opsPer := 15 + rng.Intn(30)
	nKeys := 1 + rng.Intn(3)
	cp := &pb.ChannelPoolConfig{MinSize: uint32(n), MaxSize: uint32(n), MaxConcurrentStreamsLowWatermark: 1000}
	if rng.Bool() {
		cp.BindPickStrategy = pb.ChannelPoolConfig_ROUND_ROBIN
	}
	if rng.Bool() {
		cp.FallbackToReady = true
	}
	cc := &ssCC{}
	b := newBuilder().Build(cc, balancer.BuildOptions{}).(*gcpBalancer)
	b.UpdateClientConnState(balancer.ClientConnState{ResolverState: resolver.State{Addresses: []resolver.Address{{Addr: "v1"}}}, BalancerConfig: &GCPBalancerConfig{ApiConfig: &pb.ApiConfig{ChannelPool: cp, Method: ssMethods()}}})
	for _, c := range cc.snapshotConns() {
		b.UpdateSubConnState(c, balancer.SubConnState{ConnectivityState: connectivity.Connecting})
		b.UpdateSubConnState(c, balancer.SubConnState{ConnectivityState: connectivity.Ready})
	}
	p := cc.picker(rng, 0, nil)
	base := time.Now()
	now := func() int64 { return int64(time.Since(base)) }
	logs := make([][]linOp, workers)
	ssInstallYield(uint64(seed)*131+uint64(idx), 25)
	var wg sync.WaitGroup
	start := make(chan struct{})
	for w := 0; w < workers; w++ {
		wg.Add(1)
		go func(w int) {
			defer wg.Done()
			r := vNewRand(seed, "lin-w", idx*100+int64(w))
			<-start
			for i := 0; i < opsPer; i++ {
				key := fmt.Sprintf("K%d", r.Intn(nKeys))
				switch x := r.Intn(10); {
				case x < 3: // BIND call completing successfully with key in the reply
					ctx := &ssCtx{Context: context.Background(), gc: &gcpContext{reqMsg: &simMsg{}, replyMsg: &simMsg{Key: key}}}
					pr, err := p.Pick(balancer.PickInfo{FullMethodName: "/v/bind", Ctx: ctx})
					if err != nil {
						continue
					}
					ch := pr.SubConn.(*ssConn).id
					t0 := now()
					pr.Done(balancer.DoneInfo{})
					logs[w] = append(logs[w], linOp{client: w, in: linIn{Kind: "bind", Key: key, Ch: ch}, call: t0, ret: now()})
				case x < 5: // UNBIND call: routed by key (a read), then unbinds on success
					ctx := &ssCtx{Context: context.Background(), gc: &gcpContext{reqMsg: &simMsg{Key: key}, replyMsg: &simMsg{}}}
					t0 := now()
					pr, err := p.Pick(balancer.PickInfo{FullMethodName: "/v/unbind", Ctx: ctx})
					t1 := now()
					out := -1
					if err == nil {
						out = pr.SubConn.(*ssConn).id
					}
					logs[w] = append(logs[w], linOp{client: w, in: linIn{Kind: "read", Key: key}, out: out, call: t0, ret: t1})
					if err != nil {
						continue
					}
					if r.Intn(4) == 0 {
						pr.Done(balancer.DoneInfo{Err: fmt.Errorf("failed unbind changes nothing")})
						continue
					}
					t2 := now()
					pr.Done(balancer.DoneInfo{})
					logs[w] = append(logs[w], linOp{client: w, in: linIn{Kind: "unbind", Key: key}, call: t2, ret: now()})
				default: // BOUND call
					ctx := &ssCtx{Context: context.Background(), gc: &gcpContext{reqMsg: &simMsg{Key: key}, replyMsg: &simMsg{}}}
					t0 := now()
					pr, err := p.Pick(balancer.PickInfo{FullMethodName: "/v/bound", Ctx: ctx})
					t1 := now()
					out := -1
					if err == nil {
						out = pr.SubConn.(*ssConn).id
						pr.Done(balancer.DoneInfo{})
					}
					logs[w] = append(logs[w], linOp{client: w, in: linIn{Kind: "read", Key: key}, out: out, call: t0, ret: t1})
				}
			}
		}(w)
	}
	close(start)
	wg.Wait()
	verifYieldFn = nil
	var all []linOp
	for _, l := range logs {
		all = append(all, l...)
	}
	return all, fmt.Sprintf("channels=%d workers=%d ops/worker=%d keys=%d rr=%v fallback=%v", n, workers, opsPer, nKeys, cp.BindPickStrategy == pb.ChannelPoolConfig_ROUND_ROBIN, cp.FallbackToReady)
}

func TestVerifPoolLin(t *testing.T) {
	env := vGetEnv()
	if env.Prop == "" {
		t.Skip("VERIF_PROP not set")
	}
	out := vNewOut(env, "poollin")
	runs := int64(200)
	if env.Tier == "thorough" {
		runs = 20000
	}
	for _, idx := range env.vCases(runs) {
		rng := vNewRand(env.Seed, "lin", idx)
		ops, desc := linRunHistory(rng, env.Seed, idx)
		out.Evaluations++
		var hist []porcupine.Operation
		reads, binds, unbinds := 0, 0, 0
		for _, o := range ops {
			hist = append(hist, porcupine.Operation{ClientId: o.client, Input: o.in, Output: o.out, Call: o.call, Return: o.ret})
			switch o.in.Kind {
			case "bind":
				binds++
			case "unbind":
				unbinds++
			default:
				reads++
			}
		}
		out.hitN("C01.lin-ops", int64(len(ops)))
		out.hitN("C01.lin-binds", int64(binds))
		out.hitN("C01.lin-unbinds", int64(unbinds))
		out.hitN("C01.lin-reads", int64(reads))
		res, info := porcupine.CheckOperationsVerbose(linModel, hist, 30*time.Second)
		out.hit("C01.lin-history")
		log := []string{"history: " + desc, fmt.Sprintf("%d ops (%d binds, %d unbinds, %d keyed picks)", len(ops), binds, unbinds, reads)}
		switch res {
		case porcupine.Ok:
			out.nontrivial(vHashStrings([]string{desc, fmt.Sprint(idx)}))
			if len(out.Samples) < 2 {
				var first []string
				for i, o := range ops {
					if i >= 12 {
						break
					}
					first = append(first, fmt.Sprintf("c%d %s [%d,%d]", o.client, linModel.DescribeOperation(o.in, o.out), o.call, o.ret))
				}
				out.sample(map[string]interface{}{"case": idx, "history": desc, "first_ops": first})
			}
		case porcupine.Unknown:
			out.inconclusive("porcupine timeout")
		default:
			// witness: the operations of the offending partition
			var wit []string
			sort.Slice(ops, func(i, j int) bool { return ops[i].call < ops[j].call })
			for _, o := range ops {
				wit = append(wit, fmt.Sprintf("c%d %s [%d,%d]", o.client, linModel.DescribeOperation(o.in, o.out), o.call, o.ret))
			}
			if len(wit) > 150 {
				wit = wit[:150]
			}
			_ = info
			out.violation(vViol{Sig: "C01.linearizable", Rule: "C01.linearizable", Detail: "history of bind/unbind completions and keyed picks is not linearizable w.r.t. the per-key binding register: " + desc, Case: idx, Log: append(log, wit...)})
			if env.Replay >= 0 {
				t.Logf("REPLAY case %d: not linearizable", idx)
			}
		}
	}
	out.write(env.Out)
}
