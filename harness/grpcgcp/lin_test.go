//go:build verif
// +build verif

package grpcgcp

// lin: C01 under concurrency. Client-boundary histories of BIND completions,
// UNBIND completions and BOUND/UNBIND picks on a fixed all-READY pool are
// checked for linearizability with porcupine against a per-key register
// {unbound | channel}: bind writes-if-absent, unbind clears, a pick for a bound
// key must return that channel, a pick for an unbound key may return anything.

import (
	"context"
	"fmt"
	"sort"
	"sync"
	"sync/atomic"
	"testing"
	"time"

	"github.com/anishathalye/porcupine"

	pb "github.com/GoogleCloudPlatform/grpc-gcp-go/grpcgcp/grpc_gcp"
	"google.golang.org/grpc/balancer"
	"google.golang.org/grpc/connectivity"
	"google.golang.org/grpc/resolver"
)

type linIn struct {
	Kind string // bind | unbind | read
	Key  string
	Ch   int // bind: channel the BIND call ran on
}

type linOp struct {
	client int
	in     linIn
	out    int // read: channel returned, -1 = not placed
	call   int64
	ret    int64
}

var linModel = porcupine.Model{
	Partition: func(history []porcupine.Operation) [][]porcupine.Operation {
		m := map[string][]porcupine.Operation{}
		var keys []string
		for _, op := range history {
			k := op.Input.(linIn).Key
			if _, ok := m[k]; !ok {
				keys = append(keys, k)
			}
			m[k] = append(m[k], op)
		}
		sort.Strings(keys)
		var r [][]porcupine.Operation
		for _, k := range keys {
			r = append(r, m[k])
		}
		return r
	},
	Init: func() interface{} { return -1 },
	Step: func(state, input, output interface{}) (bool, interface{}) {
		st := state.(int)
		in := input.(linIn)
		switch in.Kind {
		case "bind":
			if st == -1 {
				return true, in.Ch
			}
			return true, st
		case "unbind":
			return true, -1
		default:
			out := output.(int)
			if st != -1 {
				return out == st, st
			}
			return true, st
		}
	},
	DescribeOperation: func(input, output interface{}) string {
		in := input.(linIn)
		switch in.Kind {
		case "bind":
			return fmt.Sprintf("bind(%s -> ch%d)", in.Key, in.Ch)
		case "unbind":
			return fmt.Sprintf("unbind(%s)", in.Key)
		}
		return fmt.Sprintf("pick(%s) = ch%d", in.Key, output.(int))
	},
}

// set by linRunHistory for the entry point's counters
var linSwaps, linRefreshMisses int64

func linRunHistory(rng *vRand, seed int64, idx int64) ([]linOp, string) {
	verifClockOn = false
	n := 2 + rng.Intn(3)
	workers := 3 + rng.Intn(6)
	opsPer := 15 + rng.Intn(30)
	nKeys := 1 + rng.Intn(3)
	cp := &pb.ChannelPoolConfig{MinSize: uint32(n), MaxSize: uint32(n), MaxConcurrentStreamsLowWatermark: 1000}
	// every other history also has a refresher: the serialized "gRPC" goroutine
	// replaces connections of channels (transparent refresh) while the workers run
	swaps := 0
	if idx%2 == 1 {
		swaps = 3 + rng.Intn(8)
		cp.UnresponsiveCalls = 1
		cp.UnresponsiveDetectionMs = 1
	}
	if rng.Bool() {
		cp.BindPickStrategy = pb.ChannelPoolConfig_ROUND_ROBIN
	}
	if rng.Bool() {
		cp.FallbackToReady = true
	}
	cc := &ssCC{}
	b := newBuilder().Build(cc, balancer.BuildOptions{}).(*gcpBalancer)
	b.UpdateClientConnState(balancer.ClientConnState{ResolverState: resolver.State{Addresses: []resolver.Address{{Addr: "v1"}}}, BalancerConfig: &GCPBalancerConfig{ApiConfig: &pb.ApiConfig{ChannelPool: cp, Method: ssMethods()}}})
	for _, c := range cc.snapshotConns() {
		b.UpdateSubConnState(c, balancer.SubConnState{ConnectivityState: connectivity.Connecting})
		b.UpdateSubConnState(c, balancer.SubConnState{ConnectivityState: connectivity.Ready})
	}
	p0 := cc.picker(rng, 0, nil)
	base := time.Now()
	now := func() int64 { return int64(time.Since(base)) }
	logs := make([][]linOp, workers)
	// connection -> logical channel (a replacement belongs to the channel whose
	// connection it replaces); written by the refresher before the replacement
	// can be returned by any pick
	var chanMap sync.Map
	for _, c := range cc.snapshotConns() {
		chanMap.Store(c.id, c.id)
	}
	chanOf := func(sc balancer.SubConn) int {
		if v, ok := chanMap.Load(sc.(*ssConn).id); ok {
			return v.(int)
		}
		return -2 // a connection the harness was never told about
	}
	var pause, paused, active, refresherDone, swapsDone, refreshMisses int32
	active = int32(workers)
	if swaps == 0 {
		refresherDone = 1
	}
	ssInstallYield(uint64(seed)*131+uint64(idx), 25)
	var wg sync.WaitGroup
	start := make(chan struct{})
	if swaps > 0 {
		wg.Add(1)
		go func() {
			defer wg.Done()
			defer atomic.StoreInt32(&refresherDone, 1)
			r := vNewRand(seed, "lin-refresher", idx)
			<-start
			for s := 0; s < swaps; s++ {
				time.Sleep(time.Duration(50+r.Intn(300)) * time.Microsecond)
				// quiet moment: the detector needs "no response for more than the window"
				atomic.StoreInt32(&pause, 1)
				t0 := time.Now()
				for atomic.LoadInt32(&paused) < atomic.LoadInt32(&active) && time.Since(t0) < 2*time.Second {
					time.Sleep(20 * time.Microsecond)
				}
				if atomic.LoadInt32(&active) == 0 {
					atomic.StoreInt32(&pause, 0)
					return
				}
				dctx, cancel := context.WithDeadline(context.Background(), time.Now().Add(-time.Second))
				pr, err := cc.picker(r, 0, nil).Pick(balancer.PickInfo{FullMethodName: "/v/plain", Ctx: &ssCtx{Context: dctx}})
				if err != nil {
					cancel()
					atomic.StoreInt32(&pause, 0)
					continue
				}
				ch := chanOf(pr.SubConn)
				time.Sleep(4 * time.Millisecond)
				before := len(cc.snapshotConns())
				pr.Done(balancer.DoneInfo{Err: ssDeadlineErr})
				cancel()
				conns := cc.snapshotConns()
				if len(conns) != before+1 {
					atomic.AddInt32(&refreshMisses, 1)
					atomic.StoreInt32(&pause, 0)
					continue
				}
				repl := conns[len(conns)-1]
				chanMap.Store(repl.id, ch)
				atomic.StoreInt32(&pause, 0)
				// the replacement connects while the workers run; READY = take-over
				b.UpdateSubConnState(repl, balancer.SubConnState{ConnectivityState: connectivity.Connecting})
				time.Sleep(time.Duration(r.Intn(200)) * time.Microsecond)
				rmBefore := atomic.LoadInt64(&cc.rmCalls)
				b.UpdateSubConnState(repl, balancer.SubConnState{ConnectivityState: connectivity.Ready})
				if atomic.LoadInt64(&cc.rmCalls) > rmBefore {
					atomic.AddInt32(&swapsDone, 1)
					// gRPC reports SHUTDOWN for a removed connection
					cc.mu.Lock()
					q := cc.removedQ
					cc.removedQ = nil
					cc.mu.Unlock()
					for _, old := range q {
						b.UpdateSubConnState(old, balancer.SubConnState{ConnectivityState: connectivity.Shutdown})
					}
				}
			}
		}()
	}
	maxOps := opsPer
	if swaps > 0 {
		maxOps = 600
	}
	for w := 0; w < workers; w++ {
		wg.Add(1)
		go func(w int) {
			defer wg.Done()
			defer atomic.AddInt32(&active, -1)
			r := vNewRand(seed, "lin-w", idx*100+int64(w))
			<-start
			for i := 0; i < maxOps; i++ {
				if i >= opsPer && atomic.LoadInt32(&refresherDone) == 1 {
					break
				}
				if atomic.LoadInt32(&pause) == 1 {
					atomic.AddInt32(&paused, 1)
					for atomic.LoadInt32(&pause) == 1 {
						time.Sleep(20 * time.Microsecond)
					}
					atomic.AddInt32(&paused, -1)
				}
				// the initial picker (superseded after the first take-over) or the latest one
				p := p0
				if r.Intn(2) == 0 {
					p = cc.picker(r, 0, nil)
				}
				key := fmt.Sprintf("K%d", r.Intn(nKeys))
				switch x := r.Intn(10); {
				case x < 3: // BIND call completing successfully with key in the reply
					ctx := &ssCtx{Context: context.Background(), gc: &gcpContext{reqMsg: &simMsg{}, replyMsg: &simMsg{Key: key}}}
					pr, err := p.Pick(balancer.PickInfo{FullMethodName: "/v/bind", Ctx: ctx})
					if err != nil {
						continue
					}
					ch := chanOf(pr.SubConn)
					t0 := now()
					pr.Done(balancer.DoneInfo{})
					logs[w] = append(logs[w], linOp{client: w, in: linIn{Kind: "bind", Key: key, Ch: ch}, call: t0, ret: now()})
				case x < 5: // UNBIND call: routed by key (a read), then unbinds on success
					ctx := &ssCtx{Context: context.Background(), gc: &gcpContext{reqMsg: &simMsg{Key: key}, replyMsg: &simMsg{}}}
					t0 := now()
					pr, err := p.Pick(balancer.PickInfo{FullMethodName: "/v/unbind", Ctx: ctx})
					t1 := now()
					out := -1
					if err == nil {
						out = chanOf(pr.SubConn)
					}
					logs[w] = append(logs[w], linOp{client: w, in: linIn{Kind: "read", Key: key}, out: out, call: t0, ret: t1})
					if err != nil {
						continue
					}
					if r.Intn(4) == 0 {
						pr.Done(balancer.DoneInfo{Err: fmt.Errorf("failed unbind changes nothing")})
						continue
					}
					t2 := now()
					pr.Done(balancer.DoneInfo{})
					logs[w] = append(logs[w], linOp{client: w, in: linIn{Kind: "unbind", Key: key}, call: t2, ret: now()})
				default: // BOUND call
					ctx := &ssCtx{Context: context.Background(), gc: &gcpContext{reqMsg: &simMsg{Key: key}, replyMsg: &simMsg{}}}
					t0 := now()
					pr, err := p.Pick(balancer.PickInfo{FullMethodName: "/v/bound", Ctx: ctx})
					t1 := now()
					out := -1
					if err == nil {
						out = chanOf(pr.SubConn)
						pr.Done(balancer.DoneInfo{})
					}
					logs[w] = append(logs[w], linOp{client: w, in: linIn{Kind: "read", Key: key}, out: out, call: t0, ret: t1})
				}
			}
		}(w)
	}
	close(start)
	wg.Wait()
	verifYieldFn = nil
	var all []linOp
	for _, l := range logs {
		all = append(all, l...)
	}
	linSwaps, linRefreshMisses = int64(swapsDone), int64(refreshMisses)
	return all, fmt.Sprintf("channels=%d workers=%d ops/worker>=%d keys=%d rr=%v fallback=%v refreshes-completed-meanwhile=%d/%d", n, workers, opsPer, nKeys, cp.BindPickStrategy == pb.ChannelPoolConfig_ROUND_ROBIN, cp.FallbackToReady, swapsDone, swaps)
}

func TestVerifPoolLin(t *testing.T) {
	env := vGetEnv()
	if env.Prop == "" {
		t.Skip("VERIF_PROP not set")
	}
	out := vNewOut(env, "poollin")
	runs := int64(200)
	if env.Tier == "thorough" {
		runs = 60000
	}
	for _, idx := range env.vCases(runs) {
		rng := vNewRand(env.Seed, "lin", idx)
		ops, desc := linRunHistory(rng, env.Seed, idx)
		out.Evaluations++
		var hist []porcupine.Operation
		reads, binds, unbinds := 0, 0, 0
		for _, o := range ops {
			hist = append(hist, porcupine.Operation{ClientId: o.client, Input: o.in, Output: o.out, Call: o.call, Return: o.ret})
			switch o.in.Kind {
			case "bind":
				binds++
			case "unbind":
				unbinds++
			default:
				reads++
			}
		}
		out.hitN("C01.lin-ops", int64(len(ops)))
		out.hitN("C01.lin-refresh-swaps", linSwaps)
		out.hitN("C01.lin-refresh-not-triggered", linRefreshMisses)
		out.hitN("C01.lin-binds", int64(binds))
		out.hitN("C01.lin-unbinds", int64(unbinds))
		out.hitN("C01.lin-reads", int64(reads))
		res, info := porcupine.CheckOperationsVerbose(linModel, hist, 30*time.Second)
		out.hit("C01.lin-history")
		log := []string{"history: " + desc, fmt.Sprintf("%d ops (%d binds, %d unbinds, %d keyed picks)", len(ops), binds, unbinds, reads)}
		switch res {
		case porcupine.Ok:
			out.nontrivial(vHashStrings([]string{desc, fmt.Sprint(idx)}))
			if len(out.Samples) < 2 {
				var first []string
				for i, o := range ops {
					if i >= 12 {
						break
					}
					first = append(first, fmt.Sprintf("c%d %s [%d,%d]", o.client, linModel.DescribeOperation(o.in, o.out), o.call, o.ret))
				}
				out.sample(map[string]interface{}{"case": idx, "history": desc, "first_ops": first})
			}
		case porcupine.Unknown:
			out.inconclusive("porcupine timeout")
		default:
			// witness: the operations of the offending partition
			var wit []string
			sort.Slice(ops, func(i, j int) bool { return ops[i].call < ops[j].call })
			for _, o := range ops {
				wit = append(wit, fmt.Sprintf("c%d %s [%d,%d]", o.client, linModel.DescribeOperation(o.in, o.out), o.call, o.ret))
			}
			if len(wit) > 150 {
				wit = wit[:150]
			}
			_ = info
			out.violation(vViol{Sig: "C01.linearizable", Rule: "C01.linearizable", Detail: "history of bind/unbind completions and keyed picks is not linearizable w.r.t. the per-key binding register: " + desc, Case: idx, Log: append(log, wit...)})
			if env.Replay >= 0 {
				t.Logf("REPLAY case %d: not linearizable", idx)
			}
		}
	}
	out.write(env.Out)
}
