//go:build verif
// +build verif

package grpcgcp

// stress: the balancer driven the way gRPC drives it - one goroutine issues
// the (serialized) balancer callbacks, many goroutines pick on the latest or an
// older published picker and run completion callbacks from yet other
// goroutines. Used (a) under -race as the C10 workload, (b) without -race by
// the quiescent-invariant monitors of C01/C02/C03/C09 (poolstress).
//
// All harness state is behind stCC.mu, taken only at the boundary (inside the
// fake's methods / around recording), never while repo code runs. verifYield
// is synchronisation-free: the decision to Gosched is a hash of (seed, site,
// per-goroutine counter).

import (
	"context"
	"fmt"
	"os"
	"runtime"
	"sort"
	"strings"
	"sync"
	"sync/atomic"
	"testing"
	"time"
	"unsafe"

	pb "github.com/GoogleCloudPlatform/grpc-gcp-go/grpcgcp/grpc_gcp"
	"google.golang.org/grpc/balancer"
	"google.golang.org/grpc/codes"
	"google.golang.org/grpc/connectivity"
	"google.golang.org/grpc/resolver"
	"google.golang.org/grpc/status"
	"google.golang.org/protobuf/proto"
)

type ssConn struct {
	balancer.SubConn
	id       int
	cc       *ssCC
	connects int32
	addrs    atomic.Value // string
	// owned by the callback goroutine:
	state   connectivity.State
	removed bool
	dead    bool
}

func (c *ssConn) UpdateAddresses(a []resolver.Address) { c.addrs.Store(simAddrStr(a)) }
func (c *ssConn) Connect()                             { atomic.AddInt32(&c.connects, 1) }
func (c *ssConn) String() string                       { return fmt.Sprintf("sc%d", c.id) }

type ssCC struct {
	balancer.ClientConn
	mu        sync.Mutex
	conns     []*ssConn
	removedQ  []*ssConn
	latest    atomic.Value // balancer.Picker
	failNext  int32
	newCalls  int64
	rmCalls   int64
	pubCalls  int64
	maxPoolWB int32
	slowNew   int32 // 1: NewSubConn takes 30ms (slow connection factory)
	// signalled (non-blocking) when a slow NewSubConn call has started
	enteredNew chan struct{}
}

func (c *ssCC) NewSubConn(a []resolver.Address, o balancer.NewSubConnOptions) (balancer.SubConn, error) {
	atomic.AddInt64(&c.newCalls, 1)
	if atomic.LoadInt32(&c.slowNew) == 1 {
		if c.enteredNew != nil {
			select {
			case c.enteredNew <- struct{}{}:
			default:
			}
		}
		time.Sleep(30 * time.Millisecond)
	}
	if len(a) == 0 {
		return nil, fmt.Errorf("verif: empty address list")
	}
	if atomic.LoadInt32(&c.failNext) > 0 && atomic.AddInt32(&c.failNext, -1) >= 0 {
		return nil, fmt.Errorf("verif: connection factory failure")
	}
	c.mu.Lock()
	defer c.mu.Unlock()
	sc := &ssConn{id: len(c.conns), cc: c, state: connectivity.Idle}
	sc.addrs.Store(simAddrStr(a))
	c.conns = append(c.conns, sc)
	return sc, nil
}
func (c *ssCC) RemoveSubConn(sc balancer.SubConn) {
	atomic.AddInt64(&c.rmCalls, 1)
	c.mu.Lock()
	defer c.mu.Unlock()
	if x, ok := sc.(*ssConn); ok {
		c.removedQ = append(c.removedQ, x)
	}
}
func (c *ssCC) UpdateState(st balancer.State) {
	atomic.AddInt64(&c.pubCalls, 1)
	p := st.Picker
	c.latest.Store(&p)
}
func (c *ssCC) ResolveNow(resolver.ResolveNowOptions) {}
func (c *ssCC) Target() string                        { return "verif" }

func (c *ssCC) snapshotConns() []*ssConn {
	c.mu.Lock()
	defer c.mu.Unlock()
	return append([]*ssConn(nil), c.conns...)
}

// picker returns the latest published picker (handed over through an
// atomic.Value, as gRPC's picker wrapper does) or, with probability stalePct,
// an older one this goroutine has seen before (kept in its own cache, so no
// harness lock is involved).
func (c *ssCC) picker(rng *vRand, stalePct int, cache *[]balancer.Picker) balancer.Picker {
	var cur balancer.Picker
	if p, ok := c.latest.Load().(*balancer.Picker); ok {
		cur = *p
	}
	if cache != nil {
		if cur != nil && (len(*cache) == 0 || (*cache)[len(*cache)-1] != cur) {
			*cache = append(*cache, cur)
			if len(*cache) > 32 {
				*cache = (*cache)[1:]
			}
		}
		if rng.Intn(100) < stalePct && len(*cache) > 0 {
			return (*cache)[rng.Intn(len(*cache))]
		}
	}
	return cur
}

// ---- yields: synchronisation-free schedule perturbation

var ssYieldSeed uint64

func ssInstallYield(seed uint64, pct uint64) {
	ssYieldSeed = seed
	verifYieldFn = func(site string) {
		// no atomics RMW, no locks, no channels: only a hash of the site and the
		// caller's stack address (a cheap goroutine-local value)
		var x byte
		h := vMix(ssYieldSeed ^ vHashString(site) ^ uint64(uintptrOf(&x))>>10)
		if h%100 < pct {
			runtime.Gosched()
		}
	}
}

type ssCfg struct {
	name     string
	cp       *pb.ChannelPoolConfig
	workers  int
	stalePct int
	dePct    int
	keyed    bool
}

type ssStats struct {
	picks, placed, done, errs int64
	kinds                     map[string]int64
}

type ssCall struct {
	done   func(balancer.DoneInfo)
	ctx    *ssCtx
	kind   string
	sc     balancer.SubConn
	cancel context.CancelFunc
}

type ssCtx struct {
	context.Context
	gc *gcpContext
}

func (c *ssCtx) Value(k interface{}) interface{} {
	if k == gcpKey && c.gc != nil {
		return c.gc
	}
	return c.Context.Value(k)
}

var ssDeadlineErr = status.Error(codes.DeadlineExceeded, context.DeadlineExceeded.Error())

type ssRun struct {
	cfg      ssCfg
	cc       *ssCC
	b        *gcpBalancer
	seed     int64
	stop     int32
	ivs      [][]ssIv // per goroutine interval logs (written only by their owner)
	ovSeen   map[string]bool
	base     time.Time
	stats    []ssStats
	negSeen  int32
	maxPool  int32
	notes    []string
	swaps    int64
	resolves int64
}

// ssIv is one operation interval, recorded without any synchronisation in the
// log of the goroutine that ran it (sampled); overlaps are computed offline.
type ssIv struct {
	kind   int8
	t0, t1 int64
}

const (
	ssCallback = 0
	ssPick     = 1
	ssDone     = 2
)

func (r *ssRun) now() int64 { return int64(time.Since(r.base)) }

func (r *ssRun) logIv(slot int, kind int8, t0 int64) {
	if len(r.ivs[slot]) < 20000 {
		r.ivs[slot] = append(r.ivs[slot], ssIv{kind: kind, t0: t0, t1: r.now()})
	}
}

// computeOverlaps: which kinds of operations were in flight at the same time
// on different goroutines (sweep over the merged interval logs).
func (r *ssRun) computeOverlaps() {
	type ev struct {
		t    int64
		kind int8
		slot int
		end  bool
	}
	var evs []ev
	for slot, l := range r.ivs {
		for _, iv := range l {
			evs = append(evs, ev{iv.t0, iv.kind, slot, false}, ev{iv.t1, iv.kind, slot, true})
		}
	}
	sort.Slice(evs, func(i, j int) bool {
		if evs[i].t != evs[j].t {
			return evs[i].t < evs[j].t
		}
		return evs[i].end && !evs[j].end
	})
	var open [3]int
	names := []string{"callback", "pick", "done"}
	for _, e := range evs {
		if e.end {
			open[e.kind]--
			continue
		}
		for k := 0; k < 3; k++ {
			if open[k] > 0 {
				a, b := int(e.kind), k
				if a > b {
					a, b = b, a
				}
				r.ovSeen[names[a]+"||"+names[b]] = true
			}
		}
		open[e.kind]++
	}
}

func uintptrOf(p *byte) uintptr { return uintptr(unsafe.Pointer(p)) }

func ssMethods() []*pb.MethodConfig {
	_, m := simMethodTable()
	return m
}

// callbackLoop is the single goroutine that plays gRPC's serializer.
func (r *ssRun) callbackLoop(rng *vRand, wg *sync.WaitGroup, budget time.Duration) {
	defer wg.Done()
	addrV := 1
	t0 := time.Now()
	for atomic.LoadInt32(&r.stop) == 0 && time.Since(t0) < budget {
		conns := r.cc.snapshotConns()
		// deliver Shutdown for removed connections, as gRPC does
		r.cc.mu.Lock()
		rq := r.cc.removedQ
		r.cc.removedQ = nil
		r.cc.mu.Unlock()
		for _, c := range rq {
			c.removed = true
			t := r.now()
			r.b.UpdateSubConnState(c, balancer.SubConnState{ConnectivityState: connectivity.Shutdown})
			r.logIv(0, ssCallback, t)
			atomic.AddInt64(&r.swaps, 1)
		}
		switch x := rng.Intn(100); {
		case x < 4:
			addrV++
			t := r.now()
			r.b.UpdateClientConnState(balancer.ClientConnState{ResolverState: resolver.State{Addresses: []resolver.Address{{Addr: fmt.Sprintf("v%d", addrV)}}}})
			r.logIv(0, ssCallback, t)
			atomic.AddInt64(&r.resolves, 1)
		case x < 6:
			t := r.now()
			r.b.ResolverError(fmt.Errorf("verif"))
			r.logIv(0, ssCallback, t)
		case x < 8 && r.cfg.cp.GetUnresponsiveCalls() > 0:
			atomic.StoreInt32(&r.cc.failNext, 1)
		default:
			if len(conns) == 0 {
				continue
			}
			c := conns[rng.Intn(len(conns))]
			if c.removed || c.dead {
				continue
			}
			var next connectivity.State
			switch c.state {
			case connectivity.Idle:
				next = connectivity.Connecting
			case connectivity.Connecting:
				next = connectivity.Ready
				if rng.Intn(8) == 0 {
					next = connectivity.TransientFailure
				}
			case connectivity.Ready:
				if rng.Intn(100) >= 6 {
					continue // mostly stay up
				}
				next = connectivity.Idle
			case connectivity.TransientFailure:
				next = connectivity.Idle
			}
			c.state = next
			t := r.now()
			r.b.UpdateSubConnState(c, balancer.SubConnState{ConnectivityState: next})
			r.logIv(0, ssCallback, t)
		}
		// sample white-box invariants at the boundary
		r.b.mu.RLock()
		n := int32(len(r.b.scRefs))
		for _, ref := range r.b.scRefs {
			if ref.getStreamsCnt() < 0 {
				atomic.StoreInt32(&r.negSeen, 1)
			}
		}
		r.b.mu.RUnlock()
		if n > atomic.LoadInt32(&r.maxPool) {
			atomic.StoreInt32(&r.maxPool, n)
		}
		if rng.Intn(4) == 0 {
			runtime.Gosched()
		}
	}
}

func (r *ssRun) worker(id int, rng *vRand, wg *sync.WaitGroup, doneCh chan *ssCall, budget time.Duration, maxOps int) {
	defer wg.Done()
	st := &r.stats[id]
	st.kinds = map[string]int64{}
	t0 := time.Now()
	var cache []balancer.Picker
	methods := []string{"/v/plain", "/v/plain", "/v/plain", "/v/bind", "/v/bound", "/v/unbind", "/v/bindmany", "/v/boundn"}
	if !r.cfg.keyed {
		methods = []string{"/v/plain", "/v/plain", "/v/bind"}
	}
	for op := 0; time.Since(t0) < budget && op < maxOps; op++ {
		p := r.cc.picker(rng, r.cfg.stalePct, &cache)
		if p == nil {
			runtime.Gosched()
			continue
		}
		method := methods[rng.Intn(len(methods))]
		key := fmt.Sprintf("w%d-k%d", id, rng.Intn(3))
		if rng.Intn(4) == 0 {
			key = simKeys[rng.Intn(len(simKeys))]
		}
		var base context.Context
		var cancel context.CancelFunc
		if rng.Intn(100) < r.cfg.dePct {
			base, cancel = context.WithTimeout(context.Background(), 0) // already expired: a client-side deadline
		} else {
			base, cancel = context.WithTimeout(context.Background(), 30*time.Millisecond)
		}
		ctx := &ssCtx{Context: base, gc: &gcpContext{reqMsg: &simMsg{Key: key, Keys: []string{key}, Nested: &simNested{Key: key}}, replyMsg: &simMsg{Key: key, Keys: []string{key, key + "-b"}}}}
		st.picks++
		t := r.now()
		pr, err := p.Pick(balancer.PickInfo{FullMethodName: method, Ctx: ctx})
		r.logIv(1+id, ssPick, t)
		if err != nil {
			st.errs++
			cancel()
			continue
		}
		st.placed++
		st.kinds[method]++
		call := &ssCall{done: pr.Done, ctx: ctx, kind: method, sc: pr.SubConn, cancel: cancel}
		if rng.Intn(3) == 0 {
			r.complete(1+id, call, rng)
			st.done++
		} else {
			doneCh <- call
		}
	}
}

func (r *ssRun) complete(slot int, c *ssCall, rng *vRand) {
	var err error
	switch x := rng.Intn(10); {
	case x < 6:
	case x < 8:
		err = ssDeadlineErr
	default:
		err = status.Error(codes.Unavailable, "x")
	}
	if dl, ok := c.ctx.Deadline(); ok && !dl.After(time.Now()) && rng.Intn(10) < 9 {
		err = ssDeadlineErr // the call's deadline has passed: gRPC reports the client-side deadline error
	}
	t := r.now()
	c.done(balancer.DoneInfo{Err: err})
	r.logIv(slot, ssDone, t)
	c.cancel()
}

func (r *ssRun) completer(id int, rng *vRand, wg *sync.WaitGroup, doneCh chan *ssCall) {
	defer wg.Done()
	var held []*ssCall
	for c := range doneCh {
		held = append(held, c)
		// complete out of order
		for len(held) > rng.Intn(4) {
			i := rng.Intn(len(held))
			x := held[i]
			held = append(held[:i], held[i+1:]...)
			r.complete(1+r.cfg.workers+id, x, rng)
		}
	}
	for _, x := range held {
		r.complete(1+r.cfg.workers+id, x, rng)
	}
}

// ssExecute runs one stress execution and returns the run for inspection.
func ssExecute(cfg ssCfg, seed int64, budget time.Duration, maxOps int) *ssRun {
	verifClockOn = false
	r := &ssRun{cfg: cfg, cc: &ssCC{}, seed: seed, ovSeen: map[string]bool{}, base: time.Now()}
	r.b = newBuilder().Build(r.cc, balancer.BuildOptions{}).(*gcpBalancer)
	api := &pb.ApiConfig{ChannelPool: cfg.cp, Method: ssMethods()}
	r.b.UpdateClientConnState(balancer.ClientConnState{ResolverState: resolver.State{Addresses: []resolver.Address{{Addr: "v1"}}}, BalancerConfig: &GCPBalancerConfig{ApiConfig: api}})
	// bring the initial pool up before the workers start
	for _, c := range r.cc.snapshotConns() {
		c.state = connectivity.Connecting
		r.b.UpdateSubConnState(c, balancer.SubConnState{ConnectivityState: connectivity.Connecting})
		c.state = connectivity.Ready
		r.b.UpdateSubConnState(c, balancer.SubConnState{ConnectivityState: connectivity.Ready})
	}
	r.stats = make([]ssStats, cfg.workers)
	nComp := 2 + cfg.workers/4
	r.ivs = make([][]ssIv, 1+cfg.workers+nComp)
	doneCh := make(chan *ssCall, 1024)
	var wgW, wgC, wgB sync.WaitGroup
	wgB.Add(1)
	go r.callbackLoop(vNewRand(seed, "cb", 0), &wgB, budget)
	for i := 0; i < nComp; i++ {
		wgC.Add(1)
		go r.completer(i, vNewRand(seed, "comp", int64(i)), &wgC, doneCh)
	}
	for i := 0; i < cfg.workers; i++ {
		wgW.Add(1)
		go r.worker(i, vNewRand(seed, "w", int64(i)), &wgW, doneCh, budget, maxOps)
	}
	wgW.Wait()
	close(doneCh)
	wgC.Wait()
	atomic.StoreInt32(&r.stop, 1)
	wgB.Wait()
	r.computeOverlaps()
	return r
}

func ssConfigs() []ssCfg {
	mk := func(name string, f func(cp *pb.ChannelPoolConfig)) ssCfg {
		cp := &pb.ChannelPoolConfig{MinSize: 2, MaxSize: 4, MaxConcurrentStreamsLowWatermark: 3}
		f(cp)
		return ssCfg{name: name, cp: cp, workers: 12, stalePct: 20, dePct: 10, keyed: true}
	}
	return []ssCfg{
		mk("plain", func(cp *pb.ChannelPoolConfig) {}),
		mk("refresh", func(cp *pb.ChannelPoolConfig) { cp.UnresponsiveCalls = 1; cp.UnresponsiveDetectionMs = 1 }),
		mk("fallback", func(cp *pb.ChannelPoolConfig) { cp.FallbackToReady = true }),
		mk("rr", func(cp *pb.ChannelPoolConfig) { cp.BindPickStrategy = pb.ChannelPoolConfig_ROUND_ROBIN }),
		mk("refresh+fallback+rr", func(cp *pb.ChannelPoolConfig) {
			cp.UnresponsiveCalls = 2
			cp.UnresponsiveDetectionMs = 1
			cp.FallbackToReady = true
			cp.BindPickStrategy = pb.ChannelPoolConfig_ROUND_ROBIN
		}),
		mk("grow", func(cp *pb.ChannelPoolConfig) {
			cp.MinSize = 1
			cp.MaxSize = 3
			cp.MaxConcurrentStreamsLowWatermark = 1
		}),
		// the pool keeps growing during most of the run (growth || round-robin BIND picks || completions)
		mk("rr+grow-long", func(cp *pb.ChannelPoolConfig) {
			cp.MinSize = 1
			cp.MaxSize = 64
			cp.MaxConcurrentStreamsLowWatermark = 1
			cp.BindPickStrategy = pb.ChannelPoolConfig_ROUND_ROBIN
			// refreshes too: SHUTDOWN reports for replaced connections arrive while the pool grows
			cp.UnresponsiveCalls = 1
			cp.UnresponsiveDetectionMs = 1
		}),
		func() ssCfg {
			// almost every call ends with a client-side deadline: many concurrent
			// qualifying completions => concurrent refresh attempts and many swaps
			c := mk("refresh-heavy", func(cp *pb.ChannelPoolConfig) {
				cp.UnresponsiveCalls = 1
				cp.UnresponsiveDetectionMs = 1
			})
			c.dePct = 92
			return c
		}(),
	}
}

func (r *ssRun) totals() (picks, placed, done int64, kinds map[string]int64) {
	kinds = map[string]int64{}
	for _, s := range r.stats {
		picks += s.picks
		placed += s.placed
		for k, v := range s.kinds {
			kinds[k] += v
		}
	}
	return
}

// ---------------------------------------------------------------- C10 balancer workload entry (built with -race)

func TestVerifRaceBalancer(t *testing.T) {
	env := vGetEnv()
	if env.Prop == "" {
		t.Skip("VERIF_PROP not set")
	}
	out := vNewOut(env, "race-balancer")
	cfgs := ssConfigs()
	budget := 1500 * time.Millisecond
	// every configuration twice: the two runs land in batches of different parity,
	// i.e. once with and once without verbose logging (vcheck), and with different GOMAXPROCS
	runs := int64(len(cfgs)) * 2
	if env.Tier == "thorough" {
		budget = 4 * time.Second
		runs = int64(len(cfgs)) * 12
	}
	for _, idx := range env.vCases(runs) {
		// runs 2c and 2c+1 use configuration c: with an even number of batches they
		// land in batches of different parity (= with and without verbose logging)
		cfg := cfgs[(idx/2)%int64(len(cfgs))]
		if cfg.dePct <= 10 {
			cfg.dePct = 35
		}
		ssInstallYield(uint64(env.Seed)*7919+uint64(idx), 15)
		r := ssExecute(cfg, env.Seed*1000+idx, budget, 1<<30)
		verifYieldFn = nil
		picks, placed, _, kinds := r.totals()
		out.Evaluations++
		out.hitN("C10.picks", picks)
		out.hitN("C10.placed", placed)
		out.hitN("C10.swaps-completed", r.swaps)
		out.hitN("C10.resolver-updates", r.resolves)
		for k, v := range kinds {
			out.hitN("C10.placed:"+k, v)
		}
		var ov []string
		for k := range r.ovSeen {
			ov = append(ov, k)
			out.hit("C10.overlap:" + k)
		}
		sort.Strings(ov)
		out.nontrivial(vHashStrings([]string{cfg.name, fmt.Sprint(idx)}))
		out.sample(map[string]interface{}{"config": cfg.name, "picks": picks, "placed": placed, "swaps": r.swaps, "overlap_pairs": ov})
	}
	out.write(env.Out)
}

// ---------------------------------------------------------------- poolstress entry (no -race): quiescent invariants

func TestVerifPoolStress(t *testing.T) {
	env := vGetEnv()
	if env.Prop == "" {
		t.Skip("VERIF_PROP not set")
	}
	out := vNewOut(env, "poolstress")
	cfgs := ssConfigs()
	runs := int64(12)
	if env.Tier == "thorough" {
		runs = 1200
	}
	for _, idx := range env.vCases(runs) {
		rng := vNewRand(env.Seed, "poolstress/"+env.Prop, idx)
		out.Evaluations++
		// the scenario runs on its own goroutine: a scenario that never returns (the
		// code under test deadlocks in a set-up call) must not cost the whole batch
		// timeout; ssQuiescent has its own, finer watchdog (C06.stress-hang)
		scenDone := make(chan struct{})
		go func() {
			defer close(scenDone)
			ssDispatch(out, env, cfgs, rng, idx)
		}()
		select {
		case <-scenDone:
		case <-time.After(150 * time.Second):
			out.inconclusive("batch stopped early: a stress scenario did not return within 150s")
			out.write(env.Out)
			return
		}
	}
	out.write(env.Out)
}

func ssDispatch(out *vOut, env vEnv, cfgs []ssCfg, rng *vRand, idx int64) {
	switch env.Prop {
	case "C09":
		if idx%6 == 5 {
			ssRoundRobinLongWait(out, rng, idx)
			return
		}
		ssRoundRobinExact(out, rng, idx)
	case "C07":
		ssOneReplacement(out, rng, idx)
	case "C20":
		ssUpdateDuringRefreshCreate(out, rng, idx)
	case "C03":
		switch idx % 4 {
		case 0:
			ssToctouGrow(out, rng, idx)
		case 1:
			ssSlowFactoryGrow(out, rng, idx)
		case 2:
			// "a refresh may hold one extra connection per refreshing channel"
			ssOneReplacementAs(out, rng, idx, "C03", "C03.stress-refresh-extra")
		default:
			ssQuiescent(out, env, cfgs[5], rng, idx)
		}
	default:
		if env.Prop == "C02" && idx%3 == 2 {
			for sub := 0; sub < 30 && len(out.Violations) == 0; sub++ {
				ssBalancedFill(out, rng, idx)
			}
			return
		}
		cfg := cfgs[idx%int64(len(cfgs))]
		if (env.Prop == "C06" || env.Prop == "C05") && idx%2 == 1 {
			// lock-order inversions between completions and refresh take-overs
			// need many of both: every other run uses the refresh-heavy workload
			cfg = cfgs[len(cfgs)-1]
			if idx%4 == 3 {
				cfg.cp = proto.Clone(cfg.cp).(*pb.ChannelPoolConfig)
				cfg.cp.FallbackToReady = true
				cfg.cp.BindPickStrategy = pb.ChannelPoolConfig_ROUND_ROBIN
				cfg.name = "refresh-heavy+fallback+rr"
			}
		}
		ssQuiescent(out, env, cfg, rng, idx)
	}
}

// ssQuiescent: conservation (C02) and the pool bound (C03) at quiescence.
// ssInstallYieldSleep: like ssInstallYield, but a fraction of the visits of a
// lock-acquisition site sleep for a moment: a goroutine that already holds one
// lock lingers before taking the next one, which is what exposes lock-order
// inversions.
func ssInstallYieldSleep(seed uint64, pct uint64) {
	ssYieldSeed = seed
	verifYieldFn = func(site string) {
		var x byte
		h := vMix(ssYieldSeed ^ vHashString(site) ^ uint64(uintptrOf(&x))>>10 ^ uint64(time.Now().UnixNano()))
		switch {
		case h%1000 < 15 && strings.Contains(site, "Lock#"):
			time.Sleep(time.Duration(100+h%900) * time.Microsecond)
		case h%100 < pct:
			runtime.Gosched()
		}
	}
}

func ssQuiescent(out *vOut, env vEnv, cfg ssCfg, rng *vRand, idx int64) {
	if env.Prop == "C06" || env.Prop == "C05" {
		ssInstallYieldSleep(uint64(env.Seed)*104729+uint64(idx), 10)
	} else {
		ssInstallYield(uint64(env.Seed)*104729+uint64(idx), 10)
	}
	if env.Prop == "C05" || env.Prop == "C06" {
		// hostile additions for the totality properties: stale pickers, many
		// client-side deadline errors (refreshes), factory failures
		cfg.stalePct, cfg.dePct = 40, 40
	}
	var r *ssRun
	finished := make(chan struct{})
	go func() {
		r = ssExecute(cfg, env.Seed*1000+idx, 400*time.Millisecond, 4000)
		close(finished)
	}()
	select {
	case <-finished:
	case <-time.After(120 * time.Second):
		// C06 under concurrency: the workload is bounded by operations and time,
		// so not finishing means goroutines are blocked for good. Witness = the
		// goroutines blocked on a lock inside repo code.
		buf := make([]byte, 8<<20)
		dump := string(buf[:runtime.Stack(buf, true)])
		var chains []string
		for _, g := range strings.Split(dump, "\n\n") {
			lines := strings.Split(g, "\n")
			if len(lines) < 2 || !(strings.Contains(lines[0], "sync.Mutex.Lock") || strings.Contains(lines[0], "sync.RWMutex") || strings.Contains(lines[0], "semacquire")) {
				continue
			}
			if c := vRepoChain(vParseFrames(lines[1:]), "grpcgcp."); c != "" {
				chains = append(chains, c)
			}
		}
		sort.Strings(chains)
		sig := "none"
		if len(chains) > 0 {
			sig = chains[0]
		}
		if env.Prop == "C06" {
			out.violation(vViol{Sig: "C06.stress-hang:" + sig, Rule: "C06.stress-hang", Detail: fmt.Sprintf("concurrent workload (config %s) did not finish within 120s; goroutines blocked on locks in: %v", cfg.name, chains), Case: idx})
		}
		out.inconclusive("stress run did not finish")
		out.write(env.Out)
		os.Exit(0)
	}
	verifYieldFn = nil
	out.hit("C06.stress-finished")
	out.hit("C05.stress-no-crash")
	picks, placed, _, _ := r.totals()
	out.hitN("stress.picks", picks)
	out.hitN("stress.placed", placed)
	log := []string{fmt.Sprintf("stress config=%s workers=%d picks=%d placed=%d swaps=%d", cfg.name, cfg.workers, picks, placed, r.swaps)}
	out.nontrivial(vHashStrings([]string{cfg.name, fmt.Sprint(idx)}))
	out.sample(map[string]interface{}{"case": idx, "summary": log[0]})
	// C02: every placement was completed exactly once => all counters are zero
	out.hit("C02.stress-quiescent-zero")
	r.b.mu.RLock()
	var bad []string
	for sc, ref := range r.b.scRefs {
		if n := ref.getStreamsCnt(); n != 0 {
			bad = append(bad, fmt.Sprintf("%v=%d", sc, n))
		}
	}
	pool := len(r.b.scRefs)
	r.b.mu.RUnlock()
	if len(bad) > 0 && env.Prop == "C02" {
		out.violation(vViol{Sig: "C02.stress-quiescent-zero:" + cfg.name, Rule: "C02.stress-quiescent-zero", Detail: fmt.Sprintf("all %d placed calls completed, but active-stream counters are not zero: %v", placed, bad), Case: idx, Log: log})
	}
	if atomic.LoadInt32(&r.negSeen) != 0 && env.Prop == "C02" {
		out.violation(vViol{Sig: "C02.stress-negative", Rule: "C02.stress-negative", Detail: "a negative active-stream count was observed during the run", Case: idx, Log: log})
	}
	out.hit("C03.stress-max")
	max := int(cfg.cp.GetMaxSize())
	if (pool > max || int(atomic.LoadInt32(&r.maxPool)) > max) && env.Prop == "C03" {
		out.violation(vViol{Sig: "C03.stress-max:" + cfg.name, Rule: "C03.stress-max", Detail: fmt.Sprintf("pool reached %d channels (now %d), maxSize %d", r.maxPool, pool, max), Case: idx, Log: log})
	}
}

// ssRoundRobinExact: M goroutines issue exactly n*k RR BIND picks concurrently
// on a fixed all-READY pool => exactly k per channel.
func ssRoundRobinExact(out *vOut, rng *vRand, idx int64) {
	n := 1 + rng.Intn(4)
	if rng.Intn(3) == 0 {
		n = 5 + rng.Intn(8) // larger pools, even sizes that are not powers of two included
	}
	k := 1 + rng.Intn(40)
	m := 2 + rng.Intn(14)
	if idx%2 == 1 {
		// many picks from many goroutines: a lost or duplicated ticket of the
		// shared cursor needs contention to show
		k = 500 + rng.Intn(2500)
		m = 8 + rng.Intn(9)
	}
	cp := &pb.ChannelPoolConfig{MinSize: uint32(n), MaxSize: uint32(n), MaxConcurrentStreamsLowWatermark: 1000, BindPickStrategy: pb.ChannelPoolConfig_ROUND_ROBIN}
	cc := &ssCC{}
	b := newBuilder().Build(cc, balancer.BuildOptions{}).(*gcpBalancer)
	b.UpdateClientConnState(balancer.ClientConnState{ResolverState: resolver.State{Addresses: []resolver.Address{{Addr: "v1"}}}, BalancerConfig: &GCPBalancerConfig{ApiConfig: &pb.ApiConfig{ChannelPool: cp, Method: ssMethods()}}})
	for _, c := range cc.snapshotConns() {
		b.UpdateSubConnState(c, balancer.SubConnState{ConnectivityState: connectivity.Connecting})
		b.UpdateSubConnState(c, balancer.SubConnState{ConnectivityState: connectivity.Ready})
	}
	p := cc.picker(rng, 0, nil)
	total := n * k
	var next int64
	counts := make([]int64, len(cc.snapshotConns()))
	var errs int64
	var other int64
	var wg sync.WaitGroup
	ssInstallYield(uint64(idx)*31+7, 20)
	start := make(chan struct{})
	for g := 0; g < m; g++ {
		wg.Add(1)
		go func(g int) {
			defer wg.Done()
			<-start
			for {
				i := atomic.AddInt64(&next, 1)
				if i > int64(total) {
					return
				}
				ctx := &ssCtx{Context: context.Background(), gc: &gcpContext{reqMsg: &simMsg{}, replyMsg: &simMsg{}}}
				method := "/v/bind"
				pr, err := p.Pick(balancer.PickInfo{FullMethodName: method, Ctx: ctx})
				if err != nil {
					atomic.AddInt64(&errs, 1)
					continue
				}
				atomic.AddInt64(&counts[pr.SubConn.(*ssConn).id], 1)
				// interleave non-BIND calls: they must not move the cursor
				if i%3 == 0 {
					if pr2, err2 := p.Pick(balancer.PickInfo{FullMethodName: "/v/plain", Ctx: ctx}); err2 == nil {
						atomic.AddInt64(&other, 1)
						pr2.Done(balancer.DoneInfo{})
					}
				}
				if g%2 == 0 {
					pr.Done(balancer.DoneInfo{Err: fmt.Errorf("x")})
				}
			}
		}(g)
	}
	close(start)
	wg.Wait()
	verifYieldFn = nil
	out.hit("C09.stress-exact")
	out.hitN("C09.stress-bind-picks", int64(total))
	out.hitN("C09.stress-other-picks", other)
	log := []string{fmt.Sprintf("rr-exact channels=%d k=%d goroutines=%d -> per-channel %v errs=%d", n, k, m, counts, errs)}
	out.nontrivial(vHashStrings([]string{fmt.Sprint(n, k, m)}))
	out.sample(map[string]interface{}{"case": idx, "summary": log[0]})
	for ch, c := range counts {
		if c != int64(k) || errs != 0 {
			out.violation(vViol{Sig: "C09.stress-exact", Rule: "C09.stress-exact", Detail: fmt.Sprintf("%d concurrent round-robin BIND picks over %d READY channels: channel %d got %d, want exactly %d each (counts %v, errors %d)", total, n, ch, c, k, counts, errs), Case: idx, Log: log})
			return
		}
	}
}

// ssRoundRobinLongWait: a round-robin BIND whose assigned channel stays not READY
// for well over a second of real time (its context alive all the while) must
// still be waiting, and must get exactly that channel once it turns READY.
func ssRoundRobinLongWait(out *vOut, rng *vRand, idx int64) {
	verifClockOn = false
	n := 2 + rng.Intn(2)
	cp := &pb.ChannelPoolConfig{MinSize: uint32(n), MaxSize: uint32(n), MaxConcurrentStreamsLowWatermark: 1000, BindPickStrategy: pb.ChannelPoolConfig_ROUND_ROBIN}
	cc := &ssCC{}
	b := newBuilder().Build(cc, balancer.BuildOptions{}).(*gcpBalancer)
	b.UpdateClientConnState(balancer.ClientConnState{ResolverState: resolver.State{Addresses: []resolver.Address{{Addr: "v1"}}}, BalancerConfig: &GCPBalancerConfig{ApiConfig: &pb.ApiConfig{ChannelPool: cp, Method: ssMethods()}}})
	conns := cc.snapshotConns()
	if len(conns) != n {
		out.inconclusive("rr-long-wait: pool not built")
		return
	}
	// every channel READY except channel 1, which is still connecting
	for i, c := range conns {
		b.UpdateSubConnState(c, balancer.SubConnState{ConnectivityState: connectivity.Connecting})
		if i != 1 {
			b.UpdateSubConnState(c, balancer.SubConnState{ConnectivityState: connectivity.Ready})
		}
	}
	p := cc.picker(rng, 0, nil)
	mk := func() *ssCtx {
		return &ssCtx{Context: context.Background(), gc: &gcpContext{reqMsg: &simMsg{}, replyMsg: &simMsg{}}}
	}
	// first BIND: channel 0 (READY)
	pr0, err0 := p.Pick(balancer.PickInfo{FullMethodName: "/v/bind", Ctx: mk()})
	if err0 != nil || pr0.SubConn.(*ssConn).id != 0 {
		out.inconclusive("rr-long-wait: first BIND did not go to channel 0")
		return
	}
	type res struct {
		id  int
		err error
	}
	done := make(chan res, 1)
	go func() {
		pr, err := p.Pick(balancer.PickInfo{FullMethodName: "/v/bind", Ctx: mk()})
		id := -1
		if err == nil {
			id = pr.SubConn.(*ssConn).id
		}
		done <- res{id, err}
	}()
	wait := time.Duration(1300+rng.Intn(400)) * time.Millisecond
	out.hit("C09.stress-long-wait")
	log := []string{fmt.Sprintf("rr-long-wait channels=%d: second BIND is assigned channel 1, which stays CONNECTING for %v of real time with the call's context alive", n, wait)}
	select {
	case r := <-done:
		out.violation(vViol{Sig: "C09.stress-early-return", Rule: "C09.stress-early-return", Detail: fmt.Sprintf("a round-robin BIND assigned to channel 1 (still CONNECTING, context alive) returned channel %d err=%v before the channel was READY", r.id, r.err), Case: idx, Log: log})
		return
	case <-time.After(wait):
	}
	b.UpdateSubConnState(conns[1], balancer.SubConnState{ConnectivityState: connectivity.Ready})
	select {
	case r := <-done:
		if r.err != nil || r.id != 1 {
			out.violation(vViol{Sig: "C09.stress-wrong-channel", Rule: "C09.stress-wrong-channel", Detail: fmt.Sprintf("the waiting round-robin BIND returned channel %d err=%v after its assigned channel 1 became READY", r.id, r.err), Case: idx, Log: log})
		}
	case <-time.After(20 * time.Second):
		out.violation(vViol{Sig: "C09.stress-waiter-stuck", Rule: "C09.stress-waiter-stuck", Detail: "the waiting round-robin BIND did not return within 20s after its assigned channel became READY", Case: idx, Log: log})
	}
	out.nontrivial(vHashStrings([]string{"rr-long-wait", fmt.Sprint(n)}))
}

// ssToctouGrow: gate scenario for the pool-size check-then-create window.
func ssToctouGrow(out *vOut, rng *vRand, idx int64) {
	max := 2 + rng.Intn(2)
	cp := &pb.ChannelPoolConfig{MinSize: uint32(max - 1), MaxSize: uint32(max), MaxConcurrentStreamsLowWatermark: 1}
	cc := &ssCC{}
	b := newBuilder().Build(cc, balancer.BuildOptions{}).(*gcpBalancer)
	b.UpdateClientConnState(balancer.ClientConnState{ResolverState: resolver.State{Addresses: []resolver.Address{{Addr: "v1"}}}, BalancerConfig: &GCPBalancerConfig{ApiConfig: &pb.ApiConfig{ChannelPool: cp}}})
	bring := func() {
		for _, c := range cc.snapshotConns() {
			if c.state != connectivity.Ready {
				b.UpdateSubConnState(c, balancer.SubConnState{ConnectivityState: connectivity.Connecting})
				b.UpdateSubConnState(c, balancer.SubConnState{ConnectivityState: connectivity.Ready})
				c.state = connectivity.Ready
			}
		}
	}
	bring()
	stale := cc.picker(rng, 0, nil)
	// a second, equivalent picker: flap one connection
	c0 := cc.snapshotConns()[0]
	b.UpdateSubConnState(c0, balancer.SubConnState{ConnectivityState: connectivity.Idle})
	b.UpdateSubConnState(c0, balancer.SubConnState{ConnectivityState: connectivity.Connecting})
	b.UpdateSubConnState(c0, balancer.SubConnState{ConnectivityState: connectivity.Ready})
	cur := cc.picker(rng, 0, nil)
	mkctx := func() *ssCtx { return &ssCtx{Context: context.Background()} }
	// saturate: one call per channel (watermark 1)
	for i := 0; i < max-1; i++ {
		if _, err := cur.Pick(balancer.PickInfo{FullMethodName: "/v/plain", Ctx: mkctx()}); err != nil {
			out.inconclusive("toctou: could not saturate")
			return
		}
	}
	// gate: hold the first goroutine that reaches the growth call after it read the pool size
	gate := make(chan struct{})
	reached := make(chan struct{}, 1)
	var armed int32 = 1
	site := ""
	verifYieldFn = func(s string) {
		if strings.HasPrefix(s, "getLeastBusySubConnRef/gb.newSubConn") && atomic.CompareAndSwapInt32(&armed, 1, 0) {
			site = s
			reached <- struct{}{}
			<-gate
		}
	}
	doneB := make(chan error, 1)
	go func() {
		_, err := stale.Pick(balancer.PickInfo{FullMethodName: "/v/plain", Ctx: mkctx()})
		doneB <- err
	}()
	select {
	case <-reached:
	case <-doneB:
		verifYieldFn = nil
		out.inconclusive("toctou: gate site never reached (growth path changed)")
		return
	case <-time.After(20 * time.Second):
		verifYieldFn = nil
		out.inconclusive("toctou: gate site never reached (timeout)")
		return
	}
	// worker A grows the pool meanwhile and the new connection becomes READY
	_, errA := cur.Pick(balancer.PickInfo{FullMethodName: "/v/plain", Ctx: mkctx()})
	bring()
	close(gate)
	errB := <-doneB
	verifYieldFn = nil
	b.mu.RLock()
	pool := len(b.scRefs)
	b.mu.RUnlock()
	out.hit("C03.toctou-grow")
	log := []string{fmt.Sprintf("toctou-grow max=%d: B held at %s after reading the pool size; A grew the pool (err=%v) and the new connection became READY; B released (err=%v); pool=%d NewSubConn calls=%d", max, site, errA, errB, pool, cc.newCalls)}
	out.nontrivial(vHashStrings([]string{"toctou", fmt.Sprint(max)}))
	out.sample(map[string]interface{}{"case": idx, "summary": log[0]})
	if pool > max {
		out.violation(vViol{Sig: "C03.toctou-grow", Rule: "C03.toctou-grow", Detail: fmt.Sprintf("two picks on different pickers grew the pool to %d channels, maxSize is %d (size check and creation are not atomic)", pool, max), Case: idx, Log: log})
	}
}

// ssBalancedFill: M goroutines place unkeyed calls concurrently on one picker
// over a fixed all-READY pool, none completes meanwhile. If every placement goes
// to a channel whose count is minimal at that moment (scan and increment being
// one step with respect to other picks), the final counts are the water-filling
// of the initial counts: sorted, they are determined exactly.
func ssBalancedFill(out *vOut, rng *vRand, idx int64) {
	verifClockOn = false
	n := 2 + rng.Intn(4)
	// a low watermark makes the saturated path (which consults the balancer for
	// the pool size between the scan and the increment) the common one
	wm := []uint32{1, 1, 2, 3, 1000}[rng.Intn(5)]
	cp := &pb.ChannelPoolConfig{MinSize: uint32(n), MaxSize: uint32(n), MaxConcurrentStreamsLowWatermark: wm}
	cc := &ssCC{}
	b := newBuilder().Build(cc, balancer.BuildOptions{}).(*gcpBalancer)
	b.UpdateClientConnState(balancer.ClientConnState{ResolverState: resolver.State{Addresses: []resolver.Address{{Addr: "v1"}}}, BalancerConfig: &GCPBalancerConfig{ApiConfig: &pb.ApiConfig{ChannelPool: cp, Method: ssMethods()}}})
	for _, c := range cc.snapshotConns() {
		b.UpdateSubConnState(c, balancer.SubConnState{ConnectivityState: connectivity.Connecting})
		b.UpdateSubConnState(c, balancer.SubConnState{ConnectivityState: connectivity.Ready})
	}
	p := cc.picker(rng, 0, nil)
	if p == nil || len(cc.snapshotConns()) != n {
		out.inconclusive("balanced-fill: pool not built")
		return
	}
	counts := make([]int64, n)
	var dones [][]func(balancer.DoneInfo)
	for i := 0; i < n; i++ {
		dones = append(dones, nil)
	}
	var log []string
	rounds := 1 + rng.Intn(3)
	for round := 0; round < rounds; round++ {
		m := 2 + rng.Intn(14)
		k := 1 + rng.Intn(60)
		total := m * k
		// expected: water-filling of the counts before the round
		want := append([]int64(nil), counts...)
		for i := 0; i < total; i++ {
			lo := 0
			for j := range want {
				if want[j] < want[lo] {
					lo = j
				}
			}
			want[lo]++
		}
		before := append([]int64(nil), counts...)
		var errs int64
		perG := make([][]balancer.PickResult, m)
		var wg sync.WaitGroup
		if round%2 == 0 {
			ssInstallYield(uint64(idx)*131+uint64(round), 25)
		} else {
			ssInstallYieldSleep(uint64(idx)*131+uint64(round), 25)
		}
		start := make(chan struct{})
		for g := 0; g < m; g++ {
			wg.Add(1)
			go func(g int) {
				defer wg.Done()
				<-start
				for i := 0; i < k; i++ {
					pr, err := p.Pick(balancer.PickInfo{FullMethodName: "/v/plain", Ctx: &ssCtx{Context: context.Background()}})
					if err != nil {
						atomic.AddInt64(&errs, 1)
						continue
					}
					perG[g] = append(perG[g], pr)
				}
			}(g)
		}
		close(start)
		wg.Wait()
		verifYieldFn = nil
		for _, l := range perG {
			for _, pr := range l {
				id := pr.SubConn.(*ssConn).id
				counts[id]++
				dones[id] = append(dones[id], pr.Done)
			}
		}
		out.hit("C02.stress-balanced-fill")
		out.hitN("C02.stress-fill-picks", int64(total))
		got := append([]int64(nil), counts...)
		sort.Slice(got, func(i, j int) bool { return got[i] < got[j] })
		sort.Slice(want, func(i, j int) bool { return want[i] < want[j] })
		log = append(log, fmt.Sprintf("balanced-fill channels=%d watermark=%d round %d: %d goroutines x %d unkeyed picks on counts %v -> %v (errors %d)", n, wm, round, m, k, before, counts, errs))
		if errs != 0 || fmt.Sprint(got) != fmt.Sprint(want) {
			out.violation(vViol{Sig: "C02.stress-balanced-fill", Rule: "C02.stress-balanced-fill", Detail: fmt.Sprintf("%d concurrent unkeyed picks over %d READY channels with counts %v ended with %v (errors %d); placing every call on a least-loaded channel gives %v (sorted)", total, n, before, counts, errs, want), Case: idx, Log: log})
			return
		}
		// complete a random subset sequentially (makes the counts uneven for the next round)
		for id := range dones {
			r := rng.Intn(len(dones[id]) + 1)
			for i := 0; i < r; i++ {
				dones[id][len(dones[id])-1](balancer.DoneInfo{})
				dones[id] = dones[id][:len(dones[id])-1]
				counts[id]--
			}
		}
	}
	out.nontrivial(vHashStrings(log))
	out.sample(map[string]interface{}{"case": idx, "summary": log})
}

// ssOneReplacement: K calls of one channel end with the client-side deadline
// error at the same time, on different goroutines, after the window has passed:
// exactly one replacement connection may be created for the channel.
func ssOneReplacement(out *vOut, rng *vRand, idx int64) {
	ssOneReplacementAs(out, rng, idx, "C07", "C07.stress-one-replacement")
}

// ssOneReplacementAs repeats the scenario a few times per case: whether two
// completions overlap inside the window that matters depends on the schedule.
func ssOneReplacementAs(out *vOut, rng *vRand, idx int64, prop string, rule string) {
	for sub := 0; sub < 8 && len(out.Violations) == 0; sub++ {
		ssOneReplacementOnce(out, rng, idx, int64(sub), prop, rule)
	}
}

func ssOneReplacementOnce(out *vOut, rng *vRand, caseIdx int64, sub int64, prop string, rule string) {
	idx := caseIdx*8 + sub
	n := 1 + rng.Intn(3)
	k := 2 + rng.Intn(10)
	cp := &pb.ChannelPoolConfig{MinSize: uint32(n), MaxSize: uint32(n), MaxConcurrentStreamsLowWatermark: 1000, UnresponsiveCalls: uint32(1 + rng.Intn(2)), UnresponsiveDetectionMs: 1}
	verifClockOn = false
	cc := &ssCC{}
	b := newBuilder().Build(cc, balancer.BuildOptions{}).(*gcpBalancer)
	b.UpdateClientConnState(balancer.ClientConnState{ResolverState: resolver.State{Addresses: []resolver.Address{{Addr: "v1"}}}, BalancerConfig: &GCPBalancerConfig{ApiConfig: &pb.ApiConfig{ChannelPool: cp, Method: ssMethods()}}})
	for _, c := range cc.snapshotConns() {
		b.UpdateSubConnState(c, balancer.SubConnState{ConnectivityState: connectivity.Connecting})
		b.UpdateSubConnState(c, balancer.SubConnState{ConnectivityState: connectivity.Ready})
	}
	p := cc.picker(rng, 0, nil)
	if p == nil {
		out.inconclusive("one-replacement: no picker")
		return
	}
	type call struct {
		done func(balancer.DoneInfo)
		id   int
	}
	var calls []call
	dl := time.Now().Add(-time.Second) // the calls' deadline has passed: their contexts report the client-side deadline error
	for i := 0; i < n*k; i++ {
		ctx, cancel := context.WithDeadline(context.Background(), dl)
		defer cancel()
		pr, err := p.Pick(balancer.PickInfo{FullMethodName: "/v/plain", Ctx: &ssCtx{Context: ctx}})
		if err != nil {
			out.inconclusive("one-replacement: pick failed")
			return
		}
		calls = append(calls, call{pr.Done, pr.SubConn.(*ssConn).id})
	}
	time.Sleep(20 * time.Millisecond) // real clock in this engine: at least 20ms have passed since any response, the window is 1ms
	newBefore := atomic.LoadInt64(&cc.newCalls)
	// a busy balancer: a goroutine keeps taking the balancer's lock through resolver errors
	var stop int32
	var wgB sync.WaitGroup
	if idx%2 == 0 {
		wgB.Add(1)
		go func() {
			defer wgB.Done()
			for atomic.LoadInt32(&stop) == 0 {
				b.UpdateSubConnState(&ssConn{id: -1}, balancer.SubConnState{ConnectivityState: connectivity.Idle})
				runtime.Gosched()
			}
		}()
	}
	ssInstallYieldSleep(uint64(idx)*977+3, 30)
	var wg sync.WaitGroup
	start := make(chan struct{})
	for _, c := range calls {
		wg.Add(1)
		go func(c call) {
			defer wg.Done()
			<-start
			c.done(balancer.DoneInfo{Err: ssDeadlineErr})
		}(c)
	}
	close(start)
	wg.Wait()
	atomic.StoreInt32(&stop, 1)
	wgB.Wait()
	verifYieldFn = nil
	created := atomic.LoadInt64(&cc.newCalls) - newBefore
	b.mu.RLock()
	pending := len(b.refreshingScRefs)
	b.mu.RUnlock()
	out.hit(rule)
	out.hitN(prop+".stress-concurrent-timeouts", int64(len(calls)))
	log := []string{fmt.Sprintf("one-replacement channels=%d: %d calls per channel ended with the client-side deadline error concurrently, >=20ms after the last response (window 1ms): %d NewSubConn calls, %d replacements pending", n, k, created, pending)}
	out.nontrivial(vHashStrings([]string{"one-repl", fmt.Sprint(n, k, cp.UnresponsiveCalls)}))
	out.sample(map[string]interface{}{"case": idx, "summary": log[0]})
	if created != int64(n) || pending != n {
		out.violation(vViol{Sig: rule, Rule: rule, Detail: fmt.Sprintf("%d channels each had %d calls time out concurrently after the window: %d replacement connections created, %d pending; exactly one per channel is allowed", n, k, created, pending), Case: caseIdx, Log: log})
	}
}

// ssSlowFactoryGrow: the connection factory (cc.NewSubConn) is slow while
// several saturated picks on different pickers each want to grow a pool that is
// one below maxSize: whatever the interleaving, the pool may not exceed maxSize.
func ssSlowFactoryGrow(out *vOut, rng *vRand, idx int64) {
	verifClockOn = false
	max := 2 + rng.Intn(3)
	cp := &pb.ChannelPoolConfig{MinSize: uint32(max - 1), MaxSize: uint32(max), MaxConcurrentStreamsLowWatermark: 1}
	cc := &ssCC{}
	b := newBuilder().Build(cc, balancer.BuildOptions{}).(*gcpBalancer)
	b.UpdateClientConnState(balancer.ClientConnState{ResolverState: resolver.State{Addresses: []resolver.Address{{Addr: "v1"}}}, BalancerConfig: &GCPBalancerConfig{ApiConfig: &pb.ApiConfig{ChannelPool: cp}}})
	var pickers []balancer.Picker
	for _, c := range cc.snapshotConns() {
		b.UpdateSubConnState(c, balancer.SubConnState{ConnectivityState: connectivity.Connecting})
		b.UpdateSubConnState(c, balancer.SubConnState{ConnectivityState: connectivity.Ready})
	}
	pickers = append(pickers, cc.picker(rng, 0, nil))
	// further equivalent pickers: flap one connection (each READY report publishes a new picker)
	c0 := cc.snapshotConns()[0]
	nPickers := 2 + rng.Intn(3)
	for len(pickers) < nPickers {
		b.UpdateSubConnState(c0, balancer.SubConnState{ConnectivityState: connectivity.Idle})
		b.UpdateSubConnState(c0, balancer.SubConnState{ConnectivityState: connectivity.Connecting})
		b.UpdateSubConnState(c0, balancer.SubConnState{ConnectivityState: connectivity.Ready})
		pickers = append(pickers, cc.picker(rng, 0, nil))
	}
	mkctx := func() *ssCtx { return &ssCtx{Context: context.Background()} }
	for i := 0; i < max-1; i++ {
		if _, err := pickers[len(pickers)-1].Pick(balancer.PickInfo{FullMethodName: "/v/plain", Ctx: mkctx()}); err != nil {
			out.inconclusive("slow-factory: could not saturate")
			return
		}
	}
	atomic.StoreInt32(&cc.slowNew, 1)
	var wg sync.WaitGroup
	start := make(chan struct{})
	errs := make([]error, len(pickers))
	for i, p := range pickers {
		wg.Add(1)
		go func(i int, p balancer.Picker) {
			defer wg.Done()
			<-start
			_, errs[i] = p.Pick(balancer.PickInfo{FullMethodName: "/v/plain", Ctx: mkctx()})
		}(i, p)
	}
	close(start)
	wg.Wait()
	atomic.StoreInt32(&cc.slowNew, 0)
	b.mu.RLock()
	pool := len(b.scRefs)
	b.mu.RUnlock()
	out.hit("C03.slow-factory-grow")
	log := []string{fmt.Sprintf("slow-factory-grow max=%d: pool of %d saturated channels, %d concurrent saturated picks on %d different pickers while NewSubConn takes 30ms: pool=%d, NewSubConn calls=%d, pick results %v", max, max-1, len(pickers), len(pickers), pool, atomic.LoadInt64(&cc.newCalls), errs)}
	out.nontrivial(vHashStrings([]string{"slow-factory", fmt.Sprint(max, len(pickers))}))
	out.sample(map[string]interface{}{"case": idx, "summary": log[0]})
	if pool > max {
		out.violation(vViol{Sig: "C03.slow-factory-grow", Rule: "C03.slow-factory-grow", Detail: fmt.Sprintf("%d concurrent saturated picks on different pickers grew the pool to %d channels while the connection factory was slow, maxSize is %d", len(pickers), pool, max), Case: idx, Log: log})
	}
}

// ssUpdateDuringRefreshCreate: a resolver update with a new address list arrives
// while the replacement connection of a refresh is being created by a slow
// connection factory. Whatever the interleaving, the replacement must carry the
// latest list when it takes over its channel.
func ssUpdateDuringRefreshCreate(out *vOut, rng *vRand, idx int64) {
	verifClockOn = false
	n := 1 + rng.Intn(3)
	cp := &pb.ChannelPoolConfig{MinSize: uint32(n), MaxSize: uint32(n), MaxConcurrentStreamsLowWatermark: 1000, UnresponsiveCalls: 1, UnresponsiveDetectionMs: 1}
	cc := &ssCC{enteredNew: make(chan struct{}, 1)}
	b := newBuilder().Build(cc, balancer.BuildOptions{}).(*gcpBalancer)
	api := &GCPBalancerConfig{ApiConfig: &pb.ApiConfig{ChannelPool: cp, Method: ssMethods()}}
	b.UpdateClientConnState(balancer.ClientConnState{ResolverState: resolver.State{Addresses: []resolver.Address{{Addr: "v1"}}}, BalancerConfig: api})
	for _, c := range cc.snapshotConns() {
		b.UpdateSubConnState(c, balancer.SubConnState{ConnectivityState: connectivity.Connecting})
		b.UpdateSubConnState(c, balancer.SubConnState{ConnectivityState: connectivity.Ready})
	}
	p := cc.picker(rng, 0, nil)
	if p == nil || len(cc.snapshotConns()) != n {
		out.inconclusive("update-during-refresh: pool not built")
		return
	}
	dctx, cancel := context.WithDeadline(context.Background(), time.Now().Add(-time.Second))
	defer cancel()
	pr, err := p.Pick(balancer.PickInfo{FullMethodName: "/v/plain", Ctx: &ssCtx{Context: dctx}})
	if err != nil {
		out.inconclusive("update-during-refresh: pick failed")
		return
	}
	old := pr.SubConn.(*ssConn)
	time.Sleep(10 * time.Millisecond) // > the 1ms window since the last response (real clock in this engine)
	before := len(cc.snapshotConns())
	atomic.StoreInt32(&cc.slowNew, 1)
	doneA := make(chan struct{})
	go func() {
		defer close(doneA)
		pr.Done(balancer.DoneInfo{Err: ssDeadlineErr}) // -> refresh -> slow NewSubConn
	}()
	select {
	case <-cc.enteredNew:
	case <-doneA:
	case <-time.After(20 * time.Second):
	}
	// the resolver update arrives while the replacement is being created
	doneB := make(chan struct{})
	go func() {
		defer close(doneB)
		b.UpdateClientConnState(balancer.ClientConnState{ResolverState: resolver.State{Addresses: []resolver.Address{{Addr: "v2"}}}, BalancerConfig: api})
	}()
	for _, ch := range []chan struct{}{doneA, doneB} {
		select {
		case <-ch:
		case <-time.After(60 * time.Second):
			out.inconclusive("batch stopped early: completion or resolver update did not return")
			return
		}
	}
	atomic.StoreInt32(&cc.slowNew, 0)
	conns := cc.snapshotConns()
	if len(conns) != before+1 {
		out.hit("C20.stress-refresh-not-triggered")
		return
	}
	repl := conns[len(conns)-1]
	b.UpdateSubConnState(repl, balancer.SubConnState{ConnectivityState: connectivity.Connecting})
	b.UpdateSubConnState(repl, balancer.SubConnState{ConnectivityState: connectivity.Ready})
	b.mu.RLock()
	_, tookOver := b.scRefs[repl]
	b.mu.RUnlock()
	addr, _ := repl.addrs.Load().(string)
	out.hit("C20.stress-update-during-refresh-create")
	log := []string{fmt.Sprintf("update-during-refresh-create channels=%d: refresh of %v started with [v1], NewSubConn takes 30ms, resolver update [v2] delivered meanwhile; replacement %v has [%s], took over=%v", n, old, repl, addr, tookOver)}
	out.nontrivial(vHashStrings([]string{"upd-refresh", fmt.Sprint(n)}))
	out.sample(map[string]interface{}{"case": idx, "summary": log[0]})
	if tookOver && addr != "v2" {
		out.violation(vViol{Sig: "C20.stress-replacement-addr", Rule: "C20.stress-replacement-addr", Detail: fmt.Sprintf("a resolver update [v2] arrived while the replacement of a refresh was being created: the replacement took over its channel with addresses [%s]", addr), Case: idx, Log: log})
	}
	for _, c := range conns[:before] {
		if a, _ := c.addrs.Load().(string); a != "v2" && c != old {
			out.violation(vViol{Sig: "C20.stress-pool-addr", Rule: "C20.stress-pool-addr", Detail: fmt.Sprintf("pool connection %v still has [%s] after the resolver update [v2]", c, a), Case: idx, Log: log})
		}
	}
}

var _ = testing.Verbose
