//go:build verif
// +build verif

package grpcgcp

// Hook definitions needed by the instrumented copies of gcp_balancer.go,
// gcp_picker.go and gcp_interceptor.go (see /verif/cmd/vinstr). This file only
// exists in the overlay of a verification build.

import (
	"runtime"
	"time"
)

// verifClockOn selects the virtual clock. It is written only before the code
// under test starts running (sequential engines), never concurrently.
var verifClockOn bool

// verifClock is the virtual "now" of the sequential engines.
var verifClock = time.Unix(1000000, 0)

func verifNow() time.Time {
	if verifClockOn {
		return verifClock
	}
	return time.Now()
}

// verifYieldFn, when set (before the workers start, read-only afterwards),
// is called at every instrumented yield site. It must not synchronize.
var verifYieldFn func(site string)

func verifYield(site string) {
	if f := verifYieldFn; f != nil {
		f(site)
	}
}

var _ = runtime.Gosched
