//go:build verif
// +build verif

package main

// C18, package main of spanner_prober: arbitrary strings/numbers are put into
// the flag variables; the sets accepted by validateFlags() are written to
// $VERIF_SHARED for the prober-package stage, which checks the resource-name
// builders, the probe type and the probe interval on exactly those sets.

import (
	"encoding/json"
	"fmt"
	"io/ioutil"
	"math"
	"os"
	"path/filepath"
	"strconv"
	"strings"
	"testing"

	proberlib "spanner_prober/prober"
)

type fmFlagSet struct {
	Project        string  `json:"project"`
	Instance       string  `json:"instance"`
	Database       string  `json:"database"`
	InstanceConfig string  `json:"instance_config"`
	QPS            float64 `json:"-"`
	QPSText        string  `json:"qps_text"`
	ProbeType      string  `json:"probe_type"`
}

func fmString(rng *vRand) string {
	good := []string{"abc", "test-project", "google.com:abc", "a_b.c-d", "", "x", "regional-us-central1", "A-Z_09"}
	bad := []string{"a/b", "../x", "projects/p", "a b", "a%2Fb", "a\nb", "a/instances/other", "é", "a?b", "a#b", "a\x00b", "/", "a/", "x;y", "p:q/r", "a\\b", "a\tb", "∕", "／"}
	switch rng.Intn(4) {
	case 0:
		return bad[rng.Intn(len(bad))]
	case 1:
		// random bytes from a hostile alphabet
		al := "ab-_.:/ %\\\n0Z"
		n := rng.Intn(8)
		b := make([]byte, n)
		for i := range b {
			b[i] = al[rng.Intn(len(al))]
		}
		return string(b)
	default:
		return good[rng.Intn(len(good))]
	}
}

func fmQPS(rng *vRand) float64 {
	vals := []float64{1, 1000, 0.5, 0.001, 1e-9, 1e-10, 1.08e-10, 1e-11, 1e-300, 5e-324, 0, -1, 1000.0001, 1e9, math.Inf(1), math.Inf(-1), math.NaN(), 999.999, 2, 10}
	if rng.Intn(3) == 0 {
		return rng.Float() * 1000
	}
	if rng.Intn(6) == 0 {
		return math.Pow(10, -float64(rng.Intn(330)))
	}
	return vals[rng.Intn(len(vals))]
}

func flagsCaseCount(e vEnv) int64 {
	if e.Tier == "thorough" {
		return 6000000
	}
	return 60000
}

func TestVerifFlags(t *testing.T) {
	env := vGetEnv()
	if env.Prop == "" {
		t.Skip("VERIF_PROP not set")
	}
	out := vNewOut(env, "flags")
	types := []string{"noop", "stale_read", "strong_query", "stale_query", "dml", "read_write", "", "NOOP", "noop ", "notaprobe", "dml/x"}
	var accepted []fmFlagSet
	for _, idx := range env.vCases(flagsCaseCount(env)) {
		rng := vNewRand(env.Seed, "flags", idx)
		fs := fmFlagSet{Project: fmString(rng), Instance: fmString(rng), Database: fmString(rng), InstanceConfig: fmString(rng), QPS: fmQPS(rng), ProbeType: types[rng.Intn(len(types))]}
		if rng.Intn(3) != 0 {
			fs.ProbeType = types[rng.Intn(6)]
		}
		fs.QPSText = strconv.FormatFloat(fs.QPS, 'g', -1, 64)
		*project, *instance_name, *database_name, *instanceConfig = fs.Project, fs.Instance, fs.Database, fs.InstanceConfig
		*opsProject = ""
		if rng.Intn(4) == 0 {
			*opsProject = fmString(rng)
		}
		*qps = fs.QPS
		*numRows = 1 + rng.Intn(10)
		*payloadSize = 1 + rng.Intn(10)
		if rng.Intn(10) == 0 {
			*numRows = -rng.Intn(3)
		}
		*probeType = fs.ProbeType
		var errs []error
		h := vStartOp(func() { errs = validateFlags() })
		st := h.awaitDone(30e9)
		out.Evaluations++
		out.hit("C18.validate-flags")
		log := []string{fmt.Sprintf("project=%q instance=%q database=%q instance_config=%q qps=%s probe_type=%q", fs.Project, fs.Instance, fs.Database, fs.InstanceConfig, fs.QPSText, fs.ProbeType)}
		if st != vDone || h.panicked {
			out.violation(vViol{Sig: "C18.validate-panic", Rule: "C18.validate-panic", Detail: fmt.Sprintf("validateFlags panicked or hung: %v %s", h.pval, st), Case: idx, Log: log})
			continue
		}
		if len(errs) > 0 {
			out.hit("C18.flags-rejected")
			continue
		}
		out.hit("C18.flags-accepted")
		out.nontrivial(vHashStrings(log))
		if len(out.Samples) < 3 {
			out.sample(map[string]interface{}{"case": idx, "accepted": log[0]})
		}
		// checks possible inside package main
		if _, err := proberlib.ParseProbeType(fs.ProbeType); err != nil {
			out.violation(vViol{Sig: "C18.probe-type", Rule: "C18.probe-type", Detail: fmt.Sprintf("accepted probe_type %q does not parse: %v", fs.ProbeType, err), Case: idx, Log: log})
		}
		for _, s := range []string{fs.Project, fs.Instance, fs.Database, fs.InstanceConfig} {
			if strings.Contains(s, "/") {
				out.violation(vViol{Sig: "C18.resource-name:slash-accepted", Rule: "C18.resource-name", Detail: fmt.Sprintf("accepted value %q contains a path separator", s), Case: idx, Log: log})
			}
		}
		accepted = append(accepted, fs)
	}
	if dir := os.Getenv("VERIF_SHARED"); dir != "" && env.Replay < 0 {
		os.MkdirAll(dir, 0755)
		b, _ := json.Marshal(accepted)
		ioutil.WriteFile(filepath.Join(dir, fmt.Sprintf("accepted.%d.json", env.Batch)), b, 0644)
	}
	out.write(env.Out)
}
