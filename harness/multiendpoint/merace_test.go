//go:build verif
// +build verif

package multiendpoint

// C10 workload for the multiendpoint package (built with -race): availability
// reports || list replacements || Current() with real, short timers.

import (
	"fmt"
	"sync"
	"testing"
	"time"
)

func TestVerifRaceME(t *testing.T) {
	env := vGetEnv()
	if env.Prop == "" {
		t.Skip("VERIF_PROP not set")
	}
	out := vNewOut(env, "race-me")
	// real clock and timers
	timeNow = func() time.Time { return time.Now() }
	timeAfterFunc = func(d time.Duration, f func()) timerAlike { return time.AfterFunc(d, f) }
	cfgs := [][2]time.Duration{{0, 0}, {2, 0}, {0, 2}, {1, 3}, {3, 1}, {2, 2}}
	budget := 400 * time.Millisecond
	runs := int64(len(cfgs))
	if env.Tier == "thorough" {
		budget, runs = 1500*time.Millisecond, int64(len(cfgs))*16
	}
	names := []string{"A", "B", "C", "D"}
	// construction with a recovery timeout so short that the per-endpoint
	// timers fire while the constructor is still running
	if env.Batch == 0 {
		n := 300
		for i := 0; i < n; i++ {
			me, err := NewMultiEndpoint(&MultiEndpointOptions{Endpoints: names, RecoveryTimeout: time.Duration(1 + i%3), SwitchingDelay: time.Duration(i % 2)})
			// deliberately no call on me here: any lock operation of this
			// goroutine would order the constructor's writes before the timer
			// callbacks and hide an unsynchronised constructor
			_, _ = me, err
			if i%50 == 0 {
				time.Sleep(200 * time.Microsecond)
			}
		}
		time.Sleep(5 * time.Millisecond)
		out.hitN("C10.me-constructions", int64(n))
	}
	for _, idx := range env.vCases(runs) {
		cfg := cfgs[idx%int64(len(cfgs))]
		me, err := NewMultiEndpoint(&MultiEndpointOptions{Endpoints: []string{"A", "B", "C"}, RecoveryTimeout: cfg[0] * time.Millisecond, SwitchingDelay: cfg[1] * time.Millisecond})
		if err != nil {
			out.inconclusive("NewMultiEndpoint: " + err.Error())
			continue
		}
		var wg sync.WaitGroup
		t0 := time.Now()
		counts := make([]int64, 8)
		for g := 0; g < 3; g++ {
			wg.Add(1)
			go func(g int) {
				defer wg.Done()
				rng := vNewRand(env.Seed, "race-me-a", idx*10+int64(g))
				for time.Since(t0) < budget {
					me.SetEndpointAvailability(names[rng.Intn(len(names))], rng.Bool())
					counts[g]++
					if rng.Intn(8) == 0 {
						time.Sleep(time.Duration(rng.Intn(500)) * time.Microsecond)
					}
				}
			}(g)
		}
		wg.Add(1)
		go func() {
			defer wg.Done()
			rng := vNewRand(env.Seed, "race-me-s", idx)
			for time.Since(t0) < budget {
				k := 1 + rng.Intn(len(names))
				p := append([]string{}, names...)
				for i := len(p) - 1; i > 0; i-- {
					j := rng.Intn(i + 1)
					p[i], p[j] = p[j], p[i]
				}
				me.SetEndpoints(p[:k])
				counts[3]++
				time.Sleep(time.Duration(rng.Intn(300)) * time.Microsecond)
			}
		}()
		for g := 0; g < 3; g++ {
			wg.Add(1)
			go func(g int) {
				defer wg.Done()
				for time.Since(t0) < budget {
					_ = me.Current()
					counts[4+g]++
				}
			}(g)
		}
		wg.Wait()
		time.Sleep(10 * time.Millisecond) // let pending timers fire
		out.Evaluations++
		out.hitN("C10.me-reports", counts[0]+counts[1]+counts[2])
		out.hitN("C10.me-set-endpoints", counts[3])
		out.hitN("C10.me-current-reads", counts[4]+counts[5]+counts[6])
		out.nontrivial(vHashStrings([]string{"race-me", fmt.Sprint(cfg, idx)}))
		out.sample(map[string]interface{}{"workload": "multiendpoint", "recovery_ms": int64(cfg[0]), "delay_ms": int64(cfg[1]), "reports": counts[0] + counts[1] + counts[2], "set_endpoints": counts[3]})
	}
	out.write(env.Out)
}
