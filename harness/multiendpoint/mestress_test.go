//go:build verif
// +build verif

package multiendpoint

// mestress: C13/C14 under real concurrency and real (short) timers.
//
// One reporter goroutine per endpoint (so "the last report about an endpoint"
// is well defined), Current() readers, optionally a goroutine re-ordering the
// list. The reporters aim their "available" reports at the instant the
// recovery timer of the preceding "unavailable" report fires. After the inputs
// stop and every timer had time to fire, the bounded-progress form of C14's
// convergence clause is checked: Current() is the highest-priority endpoint
// whose last report says available (polled for up to 5 s of quiescence; the
// timers are a few milliseconds long).

import (
	"fmt"
	"sync"
	"sync/atomic"
	"testing"
	"time"
)

func TestVerifMEStress(t *testing.T) {
	env := vGetEnv()
	if env.Prop == "" {
		t.Skip("VERIF_PROP not set")
	}
	out := vNewOut(env, "mestress")
	timeNow = func() time.Time { return time.Now() }
	timeAfterFunc = func(d time.Duration, f func()) timerAlike { return time.AfterFunc(d, f) }
	runs := int64(160)
	if env.Tier == "thorough" {
		runs = 6000
	}
	names := []string{"A", "B", "C", "D"}
	for _, idx := range env.vCases(runs) {
		rng := vNewRand(env.Seed, "mestress", idx)
		out.Evaluations++
		r := time.Duration(300+rng.Intn(1700)) * time.Microsecond
		d := time.Duration(0)
		if rng.Intn(2) == 0 {
			d = time.Duration(200+rng.Intn(1500)) * time.Microsecond
		}
		reorder := rng.Intn(3) == 0
		me, err := NewMultiEndpoint(&MultiEndpointOptions{Endpoints: names, RecoveryTimeout: r, SwitchingDelay: d})
		if err != nil {
			out.inconclusive("NewMultiEndpoint: " + err.Error())
			continue
		}
		budget := time.Duration(15+rng.Intn(25)) * time.Millisecond
		t0 := time.Now()
		last := make([]int32, len(names)) // 1 = the endpoint's last report says available
		var reports, reads, sets int64
		var stop int32
		var wg sync.WaitGroup
		for i := range names {
			wg.Add(1)
			go func(i int) {
				defer wg.Done()
				rg := vNewRand(env.Seed, "mestress-r", idx*16+int64(i))
				finalAvail := rg.Intn(4) != 0
				for time.Since(t0) < budget {
					switch rg.Intn(4) {
					case 0:
						me.SetEndpointAvailability(names[i], true)
						atomic.StoreInt32(&last[i], 1)
					default:
						// unavailable, then available right when the recovery timer fires
						me.SetEndpointAvailability(names[i], false)
						atomic.StoreInt32(&last[i], 0)
						time.Sleep(r + time.Duration(rg.Intn(120)-60)*time.Microsecond)
						me.SetEndpointAvailability(names[i], true)
						atomic.StoreInt32(&last[i], 1)
						atomic.AddInt64(&reports, 1)
					}
					atomic.AddInt64(&reports, 1)
					if rg.Intn(3) == 0 {
						time.Sleep(time.Duration(rg.Intn(300)) * time.Microsecond)
					}
				}
				if !finalAvail {
					me.SetEndpointAvailability(names[i], false)
					atomic.StoreInt32(&last[i], 0)
				}
			}(i)
		}
		list := append([]string{}, names...)
		var listMu sync.Mutex
		if reorder {
			wg.Add(1)
			go func() {
				defer wg.Done()
				rg := vNewRand(env.Seed, "mestress-s", idx)
				for time.Since(t0) < budget {
					p := append([]string{}, names...)
					for i := len(p) - 1; i > 0; i-- {
						j := rg.Intn(i + 1)
						p[i], p[j] = p[j], p[i]
					}
					// every endpoint stays in the list (reporters keep reporting about all of them)
					if me.SetEndpoints(p) == nil {
						listMu.Lock()
						list = p
						listMu.Unlock()
					}
					atomic.AddInt64(&sets, 1)
					time.Sleep(time.Duration(200+rg.Intn(800)) * time.Microsecond)
				}
			}()
		}
		var rwg sync.WaitGroup
		var badMember atomic.Value
		for g := 0; g < 2; g++ {
			rwg.Add(1)
			go func() {
				defer rwg.Done()
				for atomic.LoadInt32(&stop) == 0 {
					c := me.Current()
					ok := false
					for _, n := range names {
						if n == c {
							ok = true
						}
					}
					if !ok {
						badMember.Store(c)
					}
					atomic.AddInt64(&reads, 1)
				}
			}()
		}
		wg.Wait()
		atomic.StoreInt32(&stop, 1)
		rwg.Wait()
		out.hitN("C14.stress-reports", atomic.LoadInt64(&reports))
		out.hitN("C14.stress-current-reads", atomic.LoadInt64(&reads))
		out.hitN("C14.stress-set-endpoints", atomic.LoadInt64(&sets))
		out.hit("C13.stress-membership")
		desc := fmt.Sprintf("recovery=%v delay=%v reorder=%v budget=%v", r, d, reorder, budget)
		if c, ok := badMember.Load().(string); ok {
			if env.Prop == "C13" {
				out.violation(vViol{Sig: "C13.stress-membership", Rule: "C13.stress-membership", Detail: fmt.Sprintf("Current() returned %q which is not an endpoint of any accepted list (%s)", c, desc), Case: idx, Log: []string{desc}})
			}
			continue
		}
		// quiescence: no more inputs; every pending timer is at most r+d long
		want := ""
		for _, n := range list {
			for i, m := range names {
				if m == n && atomic.LoadInt32(&last[i]) == 1 && want == "" {
					want = n
				}
			}
		}
		if want == "" {
			out.hit("C14.stress-none-available")
			continue
		}
		got := ""
		deadline := time.Now().Add(5 * time.Second)
		time.Sleep(r + d + time.Millisecond)
		for {
			got = me.Current()
			if got == want || time.Now().After(deadline) {
				break
			}
			time.Sleep(2 * time.Millisecond)
		}
		out.hit("C14.stress-convergence")
		out.nontrivial(vHashStrings([]string{"mestress", desc, fmt.Sprint(idx)}))
		if len(out.Samples) < 3 {
			out.sample(map[string]interface{}{"case": idx, "config": desc, "reports": atomic.LoadInt64(&reports), "last_available": fmt.Sprint(last), "list": fmt.Sprint(list), "current": got})
		}
		if got != want && env.Prop == "C14" {
			out.violation(vViol{Sig: "C14.stress-convergence", Rule: "C14.stress-convergence", Detail: fmt.Sprintf("inputs stopped 5s ago and every timer has fired: Current()=%s, but the highest-priority endpoint whose last report says available is %s (list %v, last reports available=%v, %s)", got, want, list, last, desc), Case: idx, Log: []string{desc}})
		}
	}
	out.write(env.Out)
}
