//go:build verif
// +build verif

package multiendpoint

// mesim: MultiEndpoint under a virtual clock (the package's own timeNow /
// timeAfterFunc variables) against a reference state machine written from the
// statements of C13/C14. One goroutine; every timer firing is its own step;
// simultaneous timers fire in seeded-shuffled order; "late" callbacks model a
// time.AfterFunc function that was already started (Stop() returns false) but
// runs after further operations, as a real callback blocked on the mutex does.

import (
	"fmt"
	"runtime"
	"sort"
	"strings"
	"testing"
	"time"
)

// ---------- virtual clock ----------
type meTimer struct {
	due     time.Time
	seq     int
	fn      func()
	stopped bool
	fired   bool
}

func (t *meTimer) Reset(time.Duration) bool { return true }
func (t *meTimer) Stop() bool               { was := !t.stopped && !t.fired; t.stopped = true; return was }

type meClock struct {
	now    time.Time
	timers []*meTimer
	seq    int
}

func (c *meClock) install() {
	timeNow = func() time.Time { return c.now }
	timeAfterFunc = func(d time.Duration, f func()) timerAlike {
		c.seq++
		t := &meTimer{due: c.now.Add(d), seq: c.seq, fn: f}
		c.timers = append(c.timers, t)
		return t
	}
}

func (c *meClock) due(target time.Time) []*meTimer {
	var r []*meTimer
	for _, t := range c.timers {
		if !t.stopped && !t.fired && !t.due.After(target) {
			r = append(r, t)
		}
	}
	sort.SliceStable(r, func(i, j int) bool {
		if r[i].due.Equal(r[j].due) {
			return r[i].seq < r[j].seq
		}
		return r[i].due.Before(r[j].due)
	})
	return r
}

func (c *meClock) pending() int {
	n := 0
	for _, t := range c.timers {
		if !t.stopped && !t.fired {
			n++
		}
	}
	return n
}

// ---------- reference model ----------
const (
	meU = 0
	meA = 1
	meR = 2
)

type meSt struct {
	status int
	until  time.Time
}

type meModel struct {
	list []string
	st   map[string]*meSt
	cur  string
	r, d time.Duration
}

func (m *meModel) prio(e string) int {
	for i, x := range m.list {
		if x == e {
			return i
		}
	}
	return -1
}

func (m *meModel) newSt(now time.Time) *meSt {
	if m.r > 0 {
		return &meSt{status: meR, until: now.Add(m.r)}
	}
	return &meSt{status: meU}
}

func (m *meModel) expire(now time.Time) {
	for _, s := range m.st {
		if s.status == meR && !s.until.After(now) {
			s.status = meU
		}
	}
}

func (m *meModel) topA() string {
	for _, e := range m.list {
		if m.st[e].status == meA {
			return e
		}
	}
	return ""
}

// exact rule of C13 for switching delay 0
func (m *meModel) exact() string {
	ta := m.topA()
	if p := m.prio(m.cur); p >= 0 {
		if m.st[m.cur].status == meR && (ta == "" || m.prio(ta) > p) {
			return m.cur
		}
	}
	if ta != "" {
		return ta
	}
	if m.prio(m.cur) >= 0 {
		return m.cur
	}
	return m.list[0]
}

// ---------- one history ----------
type meRun struct {
	rng   *vRand
	clk   *meClock
	me    MultiEndpoint
	m     *meModel
	log   []string
	hits  map[string]int64
	viol  *vViol
	lateQ []*meTimer
	late  bool
	idx   int64
	prop  string
	// sameInstant: the next op happens at the same clock reading as the previous one
	sameInstant bool
	// dup: the next SetEndpoints list has a repeated entry; dupMode: such a list was accepted
	dup, dupMode bool
}

var meNames = []string{"A", "B", "C", "D", "E"}
var meEpoch = time.Unix(1000000, 0)

func (h *meRun) say(f string, a ...interface{}) { h.log = append(h.log, fmt.Sprintf(f, a...)) }
func (h *meRun) hit(r string)                   { h.hits[r]++ }
func (h *meRun) fail(rule, class, f string, a ...interface{}) {
	if h.viol != nil {
		return
	}
	sig := rule
	if class != "" {
		sig += ":" + class
	}
	h.viol = &vViol{Sig: sig, Rule: rule, Detail: fmt.Sprintf(f, a...), Case: h.idx}
}

func (h *meRun) cfgClass() string {
	switch {
	case h.m.r == 0 && h.m.d == 0:
		return "r0d0"
	case h.m.d == 0:
		return "d0"
	case h.m.r == 0:
		return "r0"
	case h.m.r < h.m.d:
		return "r<d"
	case h.m.r == h.m.d:
		return "r=d"
	}
	return "r>d"
}

// check compares Current() with what the statements admit after a step.
func (h *meRun) check(step string, prevCur string, isTimer bool, quiescent bool) {
	m := h.m
	got := h.me.Current()
	h.hit("C13.membership")
	if m.prio(got) < 0 {
		h.fail("C13.membership", "", "%s: Current()=%q is not in the accepted list %v", step, got, m.list)
		return
	}
	if h.dupMode {
		// a list with a repeated entry was accepted earlier: the statements do not
		// say which occurrence gives the priority, so only membership (and totality)
		// are judged for the rest of this history
		m.cur = got
		return
	}
	pc := m.prio(prevCur)
	safetyRules := func() bool {
		if got != prevCur && pc >= 0 {
			ps := m.st[prevCur]
			ta := m.topA()
			cls := "op"
			if isTimer {
				cls = "timer"
			}
			// S2: recovering current inside its window, no higher-priority available -> unchanged
			if ps.status == meR && (ta == "" || m.prio(ta) > pc) {
				h.fail("C14.recovering-stays", cls, "%s: moved %s->%s while %s is recovering inside its window and no higher-priority endpoint is available", step, prevCur, got, prevCur)
				return false
			}
			// S5: non-timer op, delay>0, old current still listed and available/recovering -> unchanged in this call
			if !isTimer && m.d > 0 && (ps.status == meA || ps.status == meR) {
				h.fail("C14.no-switch-in-call", "", "%s: moved %s->%s inside the call although a switching delay is configured and %s is still listed and %s", step, prevCur, got, prevCur, map[int]string{meA: "available", meR: "recovering"}[ps.status])
				return false
			}
			// S6: never from an available endpoint to a lower-priority one
			if ps.status == meA && m.prio(got) > pc {
				h.fail("C14.no-downgrade", cls, "%s: moved from available %s (priority %d) to lower-priority %s (priority %d)", step, prevCur, pc, got, m.prio(got))
				return false
			}
		}
		if pc >= 0 {
			ps := m.st[prevCur]
			if ps.status == meR {
				h.hit("C14.recovering-stays")
			}
			if !isTimer && m.d > 0 && (ps.status == meA || ps.status == meR) && m.topA() != "" && m.prio(m.topA()) < pc {
				h.hit("C14.no-switch-in-call")
			}
			if ps.status == meA {
				h.hit("C14.no-downgrade")
			}
		}
		return true
	}
	quiescentRules := func() bool {
		if quiescent {
			if s := m.st[got]; m.topA() != "" {
				h.hit("C13.unavail-current")
				if s.status == meU {
					h.fail("C13.unavail-current", h.cfgClass(), "%s: Current()=%s is known to be unavailable while %s is available", step, got, m.topA())
					return false
				}
			}
			if m.topA() == "" && pc >= 0 {
				h.hit("C13.none-available-unchanged")
				if got != prevCur {
					h.fail("C13.none-available-unchanged", "", "%s: moved %s->%s although no endpoint is available", step, prevCur, got)
					return false
				}
			}
			if pc < 0 && m.topA() == "" {
				h.hit("C13.removed-first")
				if got != m.list[0] {
					h.fail("C13.removed-first", "", "%s: current was removed and nothing is available: got %s, want the list's first %s", step, got, m.list[0])
					return false
				}
			}
			if m.d == 0 {
				m.cur = prevCur
				h.hit("C13.exact")
				if want := m.exact(); got != want {
					h.fail("C13.exact", h.cfgClass(), "%s: Current()=%s, the exact rule (no switching delay) gives %s", step, got, want)
					return false
				}
			}
		}
		return true
	}
	// the property being checked gets its own rules evaluated first (a single
	// step can break a C13 and a C14 rule at once; only the first is recorded)
	if h.prop == "C13" {
		if !quiescentRules() || !safetyRules() {
			return
		}
	} else if !safetyRules() || !quiescentRules() {
		return
	}
	m.cur = got
}

func (h *meRun) fire(t *meTimer) {
	prev := h.me.Current()
	if !h.guard("timer callback", t.fn) {
		return
	}
	h.m.expire(h.clk.now)
	h.hit("C14.timer-fired")
	h.check(fmt.Sprintf("timer#%d", t.seq), prev, true, false)
}

func (h *meRun) advance(dt time.Duration) {
	clk := h.clk
	target := clk.now.Add(dt)
	for h.viol == nil {
		ds := clk.due(target)
		if len(ds) == 0 {
			break
		}
		inst := ds[0].due
		var grp []*meTimer
		for _, t := range ds {
			if t.due.Equal(inst) {
				grp = append(grp, t)
			}
		}
		if len(grp) > 1 {
			h.hit("C14.simultaneous-timers")
			for i := len(grp) - 1; i > 0; i-- {
				j := h.rng.Intn(i + 1)
				grp[i], grp[j] = grp[j], grp[i]
			}
		}
		clk.now = inst
		prevQ := h.me.Current()
		for _, t := range grp {
			if t.stopped || t.fired {
				continue
			}
			t.fired = true
			if h.late && h.rng.Intn(4) == 0 {
				h.lateQ = append(h.lateQ, t)
				h.hit("C14.late-callback")
				h.say("  timer#%d starts late", t.seq)
				continue
			}
			h.fire(t)
			if h.viol != nil {
				return
			}
		}
		if len(h.lateQ) == 0 {
			h.m.expire(clk.now)
			// quiescent instant: only the C13 rules are judged against the value at the start of the instant
			save := h.viol
			h.check(fmt.Sprintf("instant +%v", inst.Sub(meEpoch)), prevQ, true, true)
			if h.viol != nil && save == nil && !strings.HasPrefix(h.viol.Rule, "C13.") {
				h.viol = nil // safety rules were already judged per timer
				h.m.cur = h.me.Current()
			}
		}
	}
	if h.viol == nil {
		clk.now = target
	}
}

func meRunHistory(rng *vRand, r, d time.Duration, n int, late bool, idx int64, prop string) *meRun {
	clk := &meClock{now: meEpoch}
	clk.install()
	k := 2 + rng.Intn(4)
	init := append([]string{}, meNames[:k]...)
	for i := len(init) - 1; i > 0; i-- {
		j := rng.Intn(i + 1)
		init[i], init[j] = init[j], init[i]
	}
	h := &meRun{rng: rng, clk: clk, hits: map[string]int64{}, late: late, idx: idx, prop: prop}
	me, err := NewMultiEndpoint(&MultiEndpointOptions{Endpoints: init, RecoveryTimeout: r, SwitchingDelay: d})
	if err != nil {
		h.fail("C13.init", "", "NewMultiEndpoint(%v): %v", init, err)
		return h
	}
	h.me = me
	h.m = &meModel{list: append([]string{}, init...), st: map[string]*meSt{}, cur: init[0], r: r, d: d}
	for _, e := range init {
		h.m.st[e] = h.m.newSt(clk.now)
	}
	h.say("init %v recovery=%v delay=%v late-callbacks=%v", init, r, d, late)
	h.check("init", init[0], false, true)
	for i := 0; i < n && h.viol == nil; i++ {
		h.step()
	}
	if h.viol != nil {
		return h
	}
	// quiescence (C14 last sentence): run late callbacks, fire every pending timer
	h.late = false
	for len(h.lateQ) > 0 && h.viol == nil {
		t := h.lateQ[0]
		h.lateQ = h.lateQ[1:]
		h.say("late timer#%d runs", t.seq)
		prev := h.me.Current()
		if !h.guard("late timer callback", t.fn) {
			return h
		}
		h.m.expire(clk.now)
		h.check(fmt.Sprintf("late#%d", t.seq), prev, true, false)
	}
	for guard := 0; clk.pending() > 0 && guard < 1000 && h.viol == nil; guard++ {
		h.advance(r + d + 1000)
	}
	if h.viol != nil {
		return h
	}
	h.m.expire(clk.now)
	got := h.me.Current()
	if ta := h.m.topA(); ta != "" && !h.dupMode {
		h.hit("C14.convergence")
		if got != ta {
			h.fail("C14.convergence", h.cfgClass(), "inputs stopped and all timers fired: Current()=%s but the highest-priority available endpoint is %s", got, ta)
		}
	}
	h.hit("C13.membership")
	if h.m.prio(got) < 0 {
		h.fail("C13.membership", "quiescent", "Current()=%q not in %v at quiescence", got, h.m.list)
	}
	return h
}

func (h *meRun) step() {
	rng, clk, m := h.rng, h.clk, h.m
	if !h.late && len(h.lateQ) == 0 && rng.Intn(8) == 0 {
		// two operations at the same clock reading (coarse clocks): only without
		// late callbacks, whose "already fired" semantics are tied to distinct instants
		h.say("(same instant)")
		h.hit("C14.same-instant")
	} else {
		clk.now = clk.now.Add(time.Nanosecond)
	}
	if len(h.lateQ) > 0 && rng.Intn(2) == 0 {
		t := h.lateQ[0]
		h.lateQ = h.lateQ[1:]
		h.say("late timer#%d runs", t.seq)
		prev := h.me.Current()
		if !h.guard("late timer callback", t.fn) {
			return
		}
		m.expire(clk.now)
		h.check(fmt.Sprintf("late#%d", t.seq), prev, true, len(h.lateQ) == 0 && len(clk.due(clk.now)) == 0)
		return
	}
	switch x := rng.Intn(10); {
	case x < 4:
		e := meNames[rng.Intn(len(meNames))]
		if rng.Intn(12) == 0 {
			e = "unknown-endpoint"
		}
		h.opAvail(e, rng.Intn(2) == 0)
	case x < 6:
		kk := rng.Intn(len(meNames) + 1)
		if kk == 0 && rng.Intn(2) == 0 {
			kk = 1
		}
		perm := make([]int, len(meNames))
		for i := range perm {
			perm[i] = i
		}
		for i := len(perm) - 1; i > 0; i-- {
			j := rng.Intn(i + 1)
			perm[i], perm[j] = perm[j], perm[i]
		}
		var l []string
		for _, p := range perm[:kk] {
			l = append(l, meNames[p])
		}
		if len(l) > 0 && rng.Intn(12) == 0 {
			// a list that names an endpoint twice
			l = append(l, l[rng.Intn(len(l))])
			i := rng.Intn(len(l))
			l[i], l[len(l)-1] = l[len(l)-1], l[i]
			h.dup = true
		}
		h.opSet(l)
	default:
		choices := []time.Duration{1, m.r / 2, m.r, m.d, m.r + m.d, m.d / 2, 1000, m.r - 1, m.d - 1}
		dt := choices[rng.Intn(len(choices))]
		if dt <= 0 {
			dt = 1
		}
		h.say("advance %v", dt)
		h.advance(dt)
	}
}

// guard runs f (a call into the code under test); a panic is a violation of
// whichever of C13/C14 is being checked (the object is unusable afterwards).
func (h *meRun) guard(what string, f func()) (ok bool) {
	defer func() {
		if r := recover(); r != nil {
			buf := make([]byte, 1<<14)
			st := string(buf[:runtime.Stack(buf, false)])
			h.fail(h.prop+".panic", vPanicKind(r)+"@"+vPanicSite(st, "multiendpoint."), "%s panicked: %v", what, r)
			ok = false
		}
	}()
	f()
	return true
}

func (h *meRun) opAvail(e string, av bool) {
	clk, m := h.clk, h.m
	prev := h.me.Current()
	h.say("avail %s %v", e, av)
	if !h.guard("SetEndpointAvailability", func() { h.me.SetEndpointAvailability(e, av) }) {
		return
	}
	if s, ok := m.st[e]; ok {
		if av {
			if s.status == meR {
				h.hit("C14.avail-in-window")
			}
			s.status = meA
		} else if s.status == meA {
			if m.r == 0 {
				s.status = meU
			} else {
				s.status = meR
				s.until = clk.now.Add(m.r)
			}
		} else if s.status == meR {
			h.hit("C14.repeat-unavail-in-window")
		}
	} else {
		h.hit("C13.unknown-endpoint-report")
	}
	h.check(fmt.Sprintf("avail(%s,%v)", e, av), prev, false, len(h.lateQ) == 0 && len(clk.due(clk.now)) == 0)
}

func (h *meRun) opSet(l []string) {
	clk, m := h.clk, h.m
	prev := h.me.Current()
	h.say("set %v", l)
	var err error
	if !h.guard("SetEndpoints", func() { err = h.me.SetEndpoints(l) }) {
		return
	}
	if len(l) == 0 {
		h.hit("C13.empty-rejected")
		if err == nil {
			h.fail("C13.empty-rejected", "", "SetEndpoints(empty) was accepted")
			return
		}
		if h.me.Current() != prev {
			h.fail("C13.empty-nochange", "", "rejected empty list changed Current() %s->%s", prev, h.me.Current())
		}
		return
	}
	if h.dup {
		h.dup = false
		h.hit("C13.duplicate-list")
		if err != nil {
			// rejecting such a list is fine, as long as nothing changes
			if h.me.Current() != prev {
				h.fail("C13.empty-nochange", "duplicate", "rejected list %v changed Current() %s->%s", l, prev, h.me.Current())
			}
			return
		}
		h.dupMode = true
	}
	if err != nil {
		h.fail("C13.set-error", "", "SetEndpoints(%v): %v", l, err)
		return
	}
	ns := map[string]*meSt{}
	for _, e := range l {
		if s, ok := m.st[e]; ok {
			ns[e] = s
		} else {
			ns[e] = m.newSt(clk.now)
		}
	}
	if m.prio(prev) >= 0 {
		found := false
		for _, e := range l {
			if e == prev {
				found = true
			}
		}
		if !found {
			h.hit("C13.current-removed")
		}
	}
	m.st = ns
	m.list = l
	h.hit("C13.set-endpoints")
	h.check(fmt.Sprintf("set%v", l), prev, false, len(h.lateQ) == 0 && len(clk.due(clk.now)) == 0)
}

// ---------------------------------------------------------------- bounded-exhaustive scripts

type meOp struct {
	kind string // avail | set | adv
	e    string
	av   bool
	l    []string
	dt   time.Duration
}

func (o meOp) String() string {
	switch o.kind {
	case "avail":
		return fmt.Sprintf("avail(%s,%v)", o.e, o.av)
	case "set":
		return fmt.Sprintf("set%v", o.l)
	}
	return fmt.Sprintf("adv(%v)", o.dt)
}

// meAlphabet: operations over 3 endpoints for configuration (r,d).
func meAlphabet(r, d time.Duration) []meOp {
	var al []meOp
	for _, e := range []string{"A", "B", "C"} {
		al = append(al, meOp{kind: "avail", e: e, av: true}, meOp{kind: "avail", e: e, av: false})
	}
	for _, l := range [][]string{{"A", "B", "C"}, {"C", "B", "A"}, {"B", "A"}, {"C"}, {"B", "C", "A"}, {"A", "C"}} {
		al = append(al, meOp{kind: "set", l: l})
	}
	dts := map[time.Duration]bool{1: true}
	for _, x := range []time.Duration{r / 2, r, d, r + d} {
		if x > 0 {
			dts[x] = true
		}
	}
	var ds []time.Duration
	for x := range dts {
		ds = append(ds, x)
	}
	sort.Slice(ds, func(i, j int) bool { return ds[i] < ds[j] })
	for _, x := range ds {
		al = append(al, meOp{kind: "adv", dt: x})
	}
	return al
}

// meRunScript executes one fixed op sequence (timers in creation order, no late callbacks).
func meRunScript(r, d time.Duration, init []string, ops []meOp, idx int64, prop string) *meRun {
	clk := &meClock{now: meEpoch}
	clk.install()
	h := &meRun{rng: &vRand{s: 1}, clk: clk, hits: map[string]int64{}, idx: idx, prop: prop}
	me, err := NewMultiEndpoint(&MultiEndpointOptions{Endpoints: init, RecoveryTimeout: r, SwitchingDelay: d})
	if err != nil {
		h.fail("C13.init", "", "NewMultiEndpoint(%v): %v", init, err)
		return h
	}
	h.me = me
	h.m = &meModel{list: append([]string{}, init...), st: map[string]*meSt{}, cur: init[0], r: r, d: d}
	for _, e := range init {
		h.m.st[e] = h.m.newSt(clk.now)
	}
	h.say("init %v recovery=%v delay=%v (scripted)", init, r, d)
	for _, o := range ops {
		if h.viol != nil {
			return h
		}
		clk.now = clk.now.Add(time.Nanosecond)
		switch o.kind {
		case "avail":
			h.opAvail(o.e, o.av)
		case "set":
			h.opSet(o.l)
		default:
			h.say("advance %v", o.dt)
			h.advance(o.dt)
		}
	}
	if h.viol != nil {
		return h
	}
	for guard := 0; clk.pending() > 0 && guard < 1000 && h.viol == nil; guard++ {
		h.advance(r + d + 1000)
	}
	if h.viol != nil {
		return h
	}
	h.m.expire(clk.now)
	got := h.me.Current()
	if ta := h.m.topA(); ta != "" {
		h.hit("C14.convergence")
		if got != ta {
			h.fail("C14.convergence", h.cfgClass(), "inputs stopped and all timers fired: Current()=%s but the highest-priority available endpoint is %s", got, ta)
		}
	}
	return h
}

// TestVerifMEExhaustive enumerates every op sequence up to the tier's depth over
// the alphabet, for each (recovery, delay) configuration.
func TestVerifMEExhaustive(t *testing.T) {
	env := vGetEnv()
	if env.Prop == "" {
		t.Skip("VERIF_PROP not set")
	}
	out := vNewOut(env, "mesim-exhaustive")
	depth := 3
	if env.Tier == "thorough" {
		depth = 5
	}
	cfgs := [][2]time.Duration{{0, 0}, {20, 0}, {0, 40}, {20, 40}, {40, 20}, {30, 30}}
	var total int64
	caseNo := int64(0)
	for ci, cfg := range cfgs {
		r, d := cfg[0]*time.Millisecond, cfg[1]*time.Millisecond
		al := meAlphabet(r, d)
		n := len(al)
		// sequences of exactly `depth` ops (shorter ones are their prefixes: every
		// rule is evaluated after every step)
		count := int64(1)
		for i := 0; i < depth; i++ {
			count *= int64(n)
		}
		for code := int64(0); code < count; code++ {
			caseNo++
			if env.Replay >= 0 {
				if caseNo-1 != env.Replay {
					continue
				}
			} else if (caseNo-1)%int64(env.Batches) != int64(env.Batch) {
				continue
			}
			ops := make([]meOp, depth)
			c := code
			for i := depth - 1; i >= 0; i-- {
				ops[i] = al[c%int64(n)]
				c /= int64(n)
			}
			h := meRunScript(r, d, []string{"A", "B", "C"}, ops, caseNo-1, env.Prop)
			total++
			out.Evaluations++
			for k, v := range h.hits {
				out.hitN(k, v)
			}
			if total%997 == 0 || h.viol != nil {
				out.nontrivial(vHashStrings(h.log))
			}
			if len(out.Samples) < 2 && code%7919 == 13 {
				out.sample(map[string]interface{}{"config": ci, "ops": h.log})
			}
			if h.viol != nil {
				v := *h.viol
				v.Log = h.log
				if strings.HasPrefix(v.Rule, env.Prop+".") {
					out.violation(v)
				} else {
					out.addExtra("foreign:"+v.Sig, 1)
				}
				if env.Replay >= 0 {
					t.Logf("REPLAY case %d: %s: %s\n  %s", caseNo-1, v.Sig, v.Detail, strings.Join(h.log, "\n  "))
				}
			} else if env.Replay >= 0 {
				t.Logf("REPLAY case %d: no violation\n  %s", caseNo-1, strings.Join(h.log, "\n  "))
			}
		}
	}
	out.Extra["exhaustive_depth"] = int64(depth)
	out.hitN("C13.exhaustive-sequences", total)
	out.hitN("C14.exhaustive-sequences", total)
	out.write(env.Out)
}

var meConfigs = [][2]time.Duration{{0, 0}, {20, 0}, {0, 40}, {20, 40}, {40, 20}, {30, 30}, {1, 1}, {1000, 3}}

var meNontrivial = map[string][]string{
	"C13": {"C13.unavail-current", "C13.current-removed", "C13.exact"},
	"C14": {"C14.timer-fired", "C14.no-switch-in-call", "C14.avail-in-window", "C14.repeat-unavail-in-window"},
}

func meCaseCount(e vEnv) int64 {
	if e.Tier == "thorough" {
		return 12000000
	}
	return 200000
}

func TestVerifME(t *testing.T) {
	env := vGetEnv()
	if env.Prop == "" {
		t.Skip("VERIF_PROP not set")
	}
	out := vNewOut(env, "mesim")
	for _, idx := range env.vCases(meCaseCount(env)) {
		rng := vNewRand(env.Seed, "mesim/"+env.Prop, idx)
		cfg := meConfigs[rng.Intn(len(meConfigs))]
		if env.Prop == "C13" && rng.Intn(2) == 0 {
			cfg = meConfigs[rng.Intn(2)] // more exact-rule (delay 0) histories for C13
		}
		if env.Prop == "C14" && rng.Intn(2) == 0 {
			cfg = meConfigs[3+rng.Intn(3)]
		}
		late := rng.Intn(3) == 0
		n := 10 + rng.Intn(31)
		// the time unit of the configuration: whole milliseconds, or (one history in
		// five) 37 microseconds, so that timeouts and delays are not whole milliseconds
		unit := time.Millisecond
		if rng.Intn(5) == 0 {
			unit = 37 * time.Microsecond
			out.hit("C14.sub-millisecond-config")
		}
		h := meRunHistory(rng, cfg[0]*unit, cfg[1]*unit, n, late, idx, env.Prop)
		out.Evaluations++
		for k, v := range h.hits {
			out.hitN(k, v)
		}
		nt := false
		for _, r := range meNontrivial[env.Prop] {
			if h.hits[r] > 0 {
				nt = true
			}
		}
		if nt {
			out.nontrivial(vHashStrings(h.log))
			if len(out.Samples) < 3 && idx%5 == 0 {
				out.sample(map[string]interface{}{"case": idx, "ops": h.log})
			}
		}
		if h.viol != nil {
			v := *h.viol
			v.Log = h.log
			if strings.HasPrefix(v.Rule, env.Prop+".") {
				out.violation(v)
			} else {
				out.addExtra("foreign:"+v.Sig, 1)
			}
			if env.Replay >= 0 {
				t.Logf("REPLAY case %d: %s: %s\n  %s", idx, v.Sig, v.Detail, strings.Join(h.log, "\n  "))
			}
		} else if env.Replay >= 0 {
			t.Logf("REPLAY case %d: no violation\n  %s", idx, strings.Join(h.log, "\n  "))
		}
	}
	out.write(env.Out)
}
