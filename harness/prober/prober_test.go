//go:build verif
// +build verif

package prober

// C18, package spanner_prober/prober: backoff, parseT4T7Latency, resource
// name builders, probeInterval, generatePayload, ParseProbeType. Inputs are
// generated in two strata (realistic / extreme, DESIGN §3.2) with separate
// signature classes.

import (
	"crypto/sha256"
	"encoding/json"
	"fmt"
	"io/ioutil"
	"math"
	"math/big"
	"os"
	"path/filepath"
	"strconv"
	"strings"
	"testing"
	"time"

	"google.golang.org/grpc/metadata"
)

type pbCase struct {
	out *vOut
	idx int64
	t   *testing.T
	env vEnv
}

func (c *pbCase) report(rule, class, detail string, log []string) {
	sig := rule
	if class != "" {
		sig += ":" + class
	}
	c.out.violation(vViol{Sig: sig, Rule: rule, Detail: detail, Case: c.idx, Log: log})
	if c.env.Replay >= 0 {
		c.t.Logf("REPLAY case %d: %s: %s\n  %s", c.idx, sig, detail, strings.Join(log, "\n  "))
	}
}

// guarded call: panics and non-termination are observations
func pbCall(f func()) (panicked bool, pval interface{}, status string) {
	h := vStartOp(f)
	st := h.awaitDone(30 * time.Second)
	if st != vDone {
		return false, nil, st
	}
	return h.panicked, h.pval, st
}

// ---------------------------------------------------------------- backoff

func pbBackoffTriple(rng *vRand) (base, max int64, retries int, stratum string) {
	if rng.Intn(4) != 0 {
		// realistic: 0 <= base <= max <= 2^53, retries <= 10^4
		stratum = "realistic"
		max = rng.Int63() % (1 << 53)
		switch rng.Intn(5) {
		case 0:
			max = int64(rng.Intn(100))
		case 1:
			max = int64(time.Duration(rng.Intn(100000)) * time.Millisecond)
		}
		base = 0
		if max > 0 {
			base = rng.Int63() % (max + 1)
		}
		switch rng.Intn(8) {
		case 0:
			base = max
		case 1:
			base = 0
		case 2:
			base = 1
		}
		if base > max {
			base = max
		}
		if base == 0 {
			retries = rng.Intn(200)
		} else {
			retries = rng.Intn(10000)
			if rng.Intn(3) == 0 {
				retries = rng.Intn(12)
			}
		}
		return
	}
	stratum = "extreme-arith"
	pickv := func() int64 {
		switch rng.Intn(8) {
		case 0:
			return math.MaxInt64
		case 1:
			return math.MinInt64
		case 2:
			return -rng.Int63()
		case 3:
			return (1 << 53) + int64(rng.Intn(1000))
		case 4:
			return math.MaxInt64 - int64(rng.Intn(2000))
		case 5:
			return -int64(rng.Intn(1000))
		default:
			return rng.Int63()
		}
	}
	a, b := pickv(), pickv()
	if a > b {
		a, b = b, a
	}
	if rng.Intn(6) == 0 {
		a = b
	}
	base, max = a, b
	retries = rng.Intn(100)
	switch rng.Intn(6) {
	case 0:
		retries = math.MaxInt32
	case 1:
		retries = -rng.Intn(5)
	}
	if base <= 0 && retries > 1000000 {
		// step guard: with a non-positive base the loop runs `retries` times
		retries = 1000000
	}
	return
}

func pbBackoff(c *pbCase, rng *vRand) {
	base, max, retries, stratum := pbBackoffTriple(rng)
	log := []string{fmt.Sprintf("backoff(base=%d, max=%d, retries=%d) [%s]", base, max, retries, stratum)}
	var r0, r1 time.Duration
	p, pv, st := pbCall(func() {
		r0 = backoff(time.Duration(base), time.Duration(max), retries)
		if retries < math.MaxInt32 {
			r1 = backoff(time.Duration(base), time.Duration(max), retries+1)
		} else {
			r1 = r0
		}
	})
	c.out.hit("C18.backoff:" + stratum)
	if st != vDone {
		c.report("C18.backoff-terminates", stratum, fmt.Sprintf("backoff did not return (%s)", st), log)
		return
	}
	if p {
		c.report("C18.backoff-panic", stratum, fmt.Sprintf("backoff panicked: %v", pv), log)
		return
	}
	log = append(log, fmt.Sprintf("-> %d, next -> %d", int64(r0), int64(r1)))
	if int64(r0) < base {
		c.report("C18.backoff-at-least-base", stratum, fmt.Sprintf("backoff=%d < base=%d", int64(r0), base), log)
		return
	}
	if int64(r0) > max {
		c.report("C18.backoff-at-most-max", stratum, fmt.Sprintf("backoff=%d > max=%d", int64(r0), max), log)
		return
	}
	if r1 < r0 {
		c.report("C18.backoff-monotone", stratum, fmt.Sprintf("backoff(retries+1)=%d < backoff(retries)=%d", int64(r1), int64(r0)), log)
		return
	}
	if r0 != time.Duration(base) && r0 != time.Duration(max) {
		c.out.nontrivial(vHashStrings(log[:1]))
	}
}

// ---------------------------------------------------------------- parseT4T7Latency

func pbEntry(rng *vRand) string {
	nums := []string{"0", "1", "12", "250", "-5", "+7", "007", "9223372036854775807", "9223372036855", "9223372036854", "-9223372036855", "99999999999999999999", "", " 5", "5 ", "5ms", "1.5", "0x10", "1e3", "٣"}
	n := nums[rng.Intn(len(nums))]
	if rng.Intn(3) == 0 {
		n = strconv.FormatInt(rng.Int63()%1000000, 10)
	} else if rng.Intn(6) == 0 {
		// any 63-bit count: most of these do not fit a time.Duration in
		// milliseconds, whatever sign the wrapped product happens to have
		n = strconv.FormatInt(rng.Int63(), 10)
		if rng.Intn(3) == 0 {
			n = "-" + n
		}
	} else if rng.Intn(8) == 0 {
		n = strconv.FormatInt(9223372036854+int64(rng.Intn(3))-1, 10) // around MaxInt64/1e6
	}
	switch rng.Intn(10) {
	case 0:
		return "gfet4t7;dur=" + n
	case 1:
		return "GFET4T7; dur=" + n
	case 2:
		return "other; dur=" + n
	case 3:
		return " gfet4t7; dur=" + n
	case 4:
		return "gfet4t7; dur=" + n + ", other; dur=3"
	case 5:
		return ""
	default:
		return "gfet4t7; dur=" + n
	}
}

func pbMD(rng *vRand) (metadata.MD, []string) {
	switch rng.Intn(6) {
	case 0:
		return nil, nil
	case 1:
		return metadata.MD{}, nil
	case 2:
		return metadata.MD{"other-key": []string{"gfet4t7; dur=5"}}, nil
	case 3:
		return metadata.MD{serverTimingKey: []string{}}, []string{}
	}
	var l []string
	for i := 0; i < 1+rng.Intn(3); i++ {
		l = append(l, pbEntry(rng))
	}
	return metadata.MD{serverTimingKey: l, "x": []string{"y"}}, l
}

func pbParse(c *pbCase, rng *vRand) {
	h, hl := pbMD(rng)
	tr, tl := pbMD(rng)
	log := []string{fmt.Sprintf("headers=%q trailers=%q", map[string][]string(h), map[string][]string(tr))}
	// reference
	var list []string
	wantErr := false
	var want time.Duration
	extreme := false
	if len(hl) > 0 {
		list = hl
		c.out.hit("C18.gfe-header")
		if len(tl) > 0 {
			c.out.hit("C18.gfe-header-preferred")
		}
	} else if len(tl) > 0 {
		list = tl
		c.out.hit("C18.gfe-trailer")
	} else {
		wantErr = true
	}
	if !wantErr {
		found := false
		for _, e := range list {
			if !strings.HasPrefix(e, gfeT4T7prefix) {
				continue
			}
			found = true
			bi, ok := new(big.Int).SetString(strings.TrimPrefix(e, gfeT4T7prefix), 10)
			if _, perr := strconv.ParseInt(strings.TrimPrefix(e, gfeT4T7prefix), 10, 64); perr != nil || !ok {
				wantErr = true
				break
			}
			ns := new(big.Int).Mul(bi, big.NewInt(int64(time.Millisecond)))
			if !ns.IsInt64() {
				wantErr = true // not representable as a time.Duration
				extreme = true
				break
			}
			want = time.Duration(ns.Int64())
			break
		}
		if !found {
			wantErr = true
		}
	}
	var got time.Duration
	var err error
	p, pv, st := pbCall(func() { got, err = parseT4T7Latency(h, tr) })
	c.out.hit("C18.gfe-parse")
	if st != vDone || p {
		c.report("C18.gfe-panic", "", fmt.Sprintf("parseT4T7Latency panicked or hung: %v %s", pv, st), log)
		return
	}
	stratum := ""
	if extreme {
		stratum = "extreme-arith"
	}
	log = append(log, fmt.Sprintf("-> %v, %v (reference: %v, error=%v)", got, err, want, wantErr))
	if wantErr {
		c.out.hit("C18.gfe-error-expected")
		if err == nil {
			c.report("C18.gfe-error-expected", stratum, fmt.Sprintf("returned %v without error, an error is required", got), log)
		}
		return
	}
	c.out.nontrivial(vHashStrings(log[:1]))
	if err != nil || got != want {
		c.report("C18.gfe-duration", "", fmt.Sprintf("returned %v, %v; want %v", got, err, want), log)
	}
}

// ---------------------------------------------------------------- payload, probe type

func pbPayload(c *pbCase, rng *vRand) {
	size := rng.Intn(5000)
	if rng.Intn(10) == 0 {
		size = 0
	}
	var pl, hs []byte
	var err error
	p, pv, st := pbCall(func() { pl, hs, err = generatePayload(size) })
	log := []string{fmt.Sprintf("generatePayload(%d)", size)}
	c.out.hit("C18.payload")
	if st != vDone || p {
		c.report("C18.payload-panic", "", fmt.Sprintf("generatePayload panicked or hung: %v %s", pv, st), log)
		return
	}
	if err != nil {
		return
	}
	sum := sha256.Sum256(pl)
	if len(pl) != size || string(sum[:]) != string(hs) {
		c.report("C18.payload-hash", "", fmt.Sprintf("len=%d (want %d), hash matches=%v", len(pl), size, string(sum[:]) == string(hs)), log)
	}
	if size > 0 {
		c.out.nontrivial(vHashStrings([]string{"payload", fmt.Sprint(size)}))
	}
}

// ---------------------------------------------------------------- accepted flag sets (from the main-package stage)

type pbFlagSet struct {
	Project        string  `json:"project"`
	Instance       string  `json:"instance"`
	Database       string  `json:"database"`
	InstanceConfig string  `json:"instance_config"`
	QPS            float64 `json:"qps"`
	QPSText        string  `json:"qps_text"`
	ProbeType      string  `json:"probe_type"`
}

func pbEqualStrings(a, b []string) bool {
	if len(a) != len(b) {
		return false
	}
	for i := range a {
		if a[i] != b[i] {
			return false
		}
	}
	return true
}

func pbFlags(c *pbCase, fs pbFlagSet) {
	log := []string{fmt.Sprintf("accepted flags: project=%q instance=%q database=%q instance_config=%q qps=%s probe_type=%q", fs.Project, fs.Instance, fs.Database, fs.InstanceConfig, fs.QPSText, fs.ProbeType)}
	opt := &ProberOptions{Project: fs.Project, Instance: fs.Instance, Database: fs.Database, InstanceConfig: fs.InstanceConfig, QPS: fs.QPS}
	checks := []struct {
		name string
		got  string
		want []string
	}{
		{"instanceURI", opt.instanceURI(), []string{"projects", fs.Project, "instances", fs.Instance}},
		{"databaseURI", opt.databaseURI(), []string{"projects", fs.Project, "instances", fs.Instance, "databases", fs.Database}},
		{"projectURI", opt.projectURI(), []string{"projects", fs.Project}},
		{"instanceConfigURI", opt.instanceConfigURI(), []string{"projects", fs.Project, "instanceConfigs", fs.InstanceConfig}},
	}
	for _, ck := range checks {
		c.out.hit("C18.resource-name")
		if got := strings.Split(ck.got, "/"); !pbEqualStrings(got, ck.want) {
			c.report("C18.resource-name", ck.name, fmt.Sprintf("%s=%q has segments %q, want exactly %q", ck.name, ck.got, got, ck.want), log)
			return
		}
	}
	if opt.instanceName() != fs.Instance || opt.databaseName() != fs.Database {
		c.report("C18.resource-name", "short-name", fmt.Sprintf("instanceName=%q databaseName=%q", opt.instanceName(), opt.databaseName()), log)
		return
	}
	c.out.hit("C18.probe-type")
	if _, err := ParseProbeType(fs.ProbeType); err != nil {
		c.report("C18.probe-type", "", fmt.Sprintf("accepted probe_type %q does not parse: %v", fs.ProbeType, err), log)
		return
	}
	p := &Prober{qps: fs.QPS}
	var iv time.Duration
	pp, pv, st := pbCall(func() { iv = p.probeInterval() })
	c.out.hit("C18.probe-interval")
	stratum := "realistic"
	if fs.QPS < 1e-6 || fs.QPS != fs.QPS {
		stratum = "extreme-arith"
		c.out.hit("C18.probe-interval:extreme")
	}
	if st != vDone || pp {
		c.report("C18.probe-interval", "panic", fmt.Sprintf("probeInterval panicked: %v", pv), log)
		return
	}
	if iv <= 0 {
		c.report("C18.probe-interval", stratum, fmt.Sprintf("accepted qps=%s gives probe interval %d ns (not strictly positive; time.NewTicker would panic)", fs.QPSText, int64(iv)), log)
		return
	}
	c.out.nontrivial(vHashStrings(log))
}

func proberCaseCount(e vEnv) int64 {
	if e.Tier == "thorough" {
		return 20000000
	}
	return 150000
}

func TestVerifProber(t *testing.T) {
	env := vGetEnv()
	if env.Prop == "" {
		t.Skip("VERIF_PROP not set")
	}
	out := vNewOut(env, "prober")
	for _, idx := range env.vCases(proberCaseCount(env)) {
		rng := vNewRand(env.Seed, "prober", idx)
		c := &pbCase{out: out, idx: idx, t: t, env: env}
		out.Evaluations++
		switch idx % 8 {
		case 0, 1, 2, 3:
			pbBackoff(c, rng)
		case 4, 5, 6:
			pbParse(c, rng)
		default:
			pbPayload(c, rng)
		}
		if idx%50000 == 7 {
			out.sample(map[string]interface{}{"case": idx, "kind": "payload"})
		}
	}
	// accepted flag sets written by the main-package stage of this run
	if dir := os.Getenv("VERIF_SHARED"); dir != "" && env.Replay < 0 {
		files, _ := filepath.Glob(filepath.Join(dir, "accepted.*.json"))
		for fi, f := range files {
			if fi%env.Batches != env.Batch {
				continue
			}
			b, err := ioutil.ReadFile(f)
			if err != nil {
				continue
			}
			var sets []pbFlagSet
			if json.Unmarshal(b, &sets) != nil {
				continue
			}
			for i, fs := range sets {
				if fs.QPSText != "" {
					if q, err := strconv.ParseFloat(fs.QPSText, 64); err == nil {
						fs.QPS = q
					}
				}
				out.Evaluations++
				pbFlags(&pbCase{out: out, idx: int64(-1000 - i), t: t, env: env}, fs)
			}
		}
	}
	out.write(env.Out)
}
