//go:build verif
// +build verif

package main

// C19: the end-to-end checksum codec against an independent wire-format
// reference (protowire tag + little-endian CRC32C from hash/crc32).

import (
	"bytes"
	"encoding/binary"
	"errors"
	"fmt"
	"hash/crc32"
	"io/ioutil"
	"log"
	"strings"
	"testing"

	"google.golang.org/grpc/encoding"
	protoCodec "google.golang.org/grpc/encoding/proto"
	"google.golang.org/protobuf/encoding/protowire"
	"google.golang.org/protobuf/proto"
	"google.golang.org/protobuf/types/descriptorpb"
	"google.golang.org/protobuf/types/known/anypb"
	"google.golang.org/protobuf/types/known/emptypb"
	"google.golang.org/protobuf/types/known/structpb"
	"google.golang.org/protobuf/types/known/wrapperspb"
)

func init() { log.SetOutput(ioutil.Discard) }

// recording inner codec: remembers exactly what the real inner codec returned
type cdRec struct {
	inner     encoding.Codec
	last      []byte
	lastErr   error
	failMsg   error
	failBytes []byte
	calls     int
	// memo: the inner codec keeps its output buffer (with spare capacity, as a
	// pooling or memoising codec would) and hands the same slice out again while
	// the message is unchanged; whoever receives it may read it, not write into it
	memo    bool
	memoBuf []byte
}

func (r *cdRec) Marshal(v interface{}) ([]byte, error) {
	r.calls++
	if r.failMsg != nil {
		// an inner codec may return partial output together with its error
		r.last, r.lastErr = r.failBytes, r.failMsg
		return r.failBytes, r.failMsg
	}
	if r.memo && r.memoBuf != nil {
		r.lastErr = nil
		return r.memoBuf, nil
	}
	b, err := r.inner.Marshal(v)
	r.last = append([]byte(nil), b...)
	r.lastErr = err
	if r.memo && err == nil {
		r.memoBuf = make([]byte, len(b), len(b)+32)
		copy(r.memoBuf, b)
		return r.memoBuf, nil
	}
	return b, err
}
func (r *cdRec) Unmarshal(d []byte, v interface{}) error { return r.inner.Unmarshal(d, v) }
func (r *cdRec) Name() string                            { return r.inner.Name() }

func cdString(rng *vRand) string {
	switch rng.Intn(6) {
	case 0:
		return ""
	case 1:
		return strings.Repeat("x", rng.Intn(100000))
	case 2:
		return "ünï\x00code"
	}
	return fmt.Sprintf("s%d", rng.Intn(100000))
}

func cdValue(rng *vRand, depth int) *structpb.Value {
	k := rng.Intn(7)
	if depth <= 0 && k >= 5 {
		k = rng.Intn(5)
	}
	switch k {
	case 0:
		return structpb.NewNullValue()
	case 1:
		return structpb.NewNumberValue(float64(rng.Intn(1000)) / 7)
	case 2:
		return structpb.NewStringValue(cdString(rng))
	case 3:
		return structpb.NewBoolValue(rng.Bool())
	case 4:
		return structpb.NewStringValue("")
	case 5:
		l := &structpb.ListValue{}
		for i := 0; i < rng.Intn(4); i++ {
			l.Values = append(l.Values, cdValue(rng, depth-1))
		}
		return structpb.NewListValue(l)
	default:
		return structpb.NewStructValue(cdStruct(rng, depth-1))
	}
}

func cdStruct(rng *vRand, depth int) *structpb.Struct {
	s := &structpb.Struct{Fields: map[string]*structpb.Value{}}
	for i := 0; i < rng.Intn(5); i++ {
		s.Fields[fmt.Sprintf("f%d", rng.Intn(20))] = cdValue(rng, depth)
	}
	return s
}

func cdUnknown(rng *vRand) []byte {
	var b []byte
	for i := 0; i < 1+rng.Intn(3); i++ {
		num := protowire.Number(100 + rng.Intn(5000))
		if rng.Intn(4) == 0 {
			num = 2047 // the checksum field number itself, already present in the payload
		}
		switch rng.Intn(3) {
		case 0:
			b = protowire.AppendTag(b, num, protowire.VarintType)
			b = protowire.AppendVarint(b, rng.Uint64())
		case 1:
			b = protowire.AppendTag(b, num, protowire.Fixed32Type)
			b = protowire.AppendFixed32(b, uint32(rng.Uint64()))
		default:
			b = protowire.AppendTag(b, num, protowire.BytesType)
			bs := []byte(cdString(rng))
			if len(bs) > 5 {
				bs = bs[:rng.Intn(5)]
			}
			b = protowire.AppendBytes(b, bs)
		}
	}
	return b
}

func cdMessage(rng *vRand) (proto.Message, string) {
	var m proto.Message
	kind := ""
	switch rng.Intn(12) {
	case 11:
		// deeply nested, far below the parsers' own limit of 10000 levels
		d := []int{40, 60, 150, 700}[rng.Intn(4)]
		v := structpb.NewStringValue(cdString(rng))
		for i := 0; i < d; i++ {
			v = structpb.NewListValue(&structpb.ListValue{Values: []*structpb.Value{v}})
		}
		m, kind = v, "deep"
	case 9:
		m, kind = wrapperspb.Bool(rng.Bool()), "wrapper-bool"
	case 10:
		m, kind = wrapperspb.Int32(int32(rng.Intn(100))), "wrapper-int32"
	case 0:
		m, kind = &emptypb.Empty{}, "empty"
	case 1:
		m, kind = cdStruct(rng, 3), "struct"
	case 2:
		m, kind = cdValue(rng, 3), "value"
	case 3:
		fd := &descriptorpb.FileDescriptorProto{Name: proto.String(cdString(rng)), Package: proto.String("p")}
		for i := 0; i < rng.Intn(4); i++ {
			msg := &descriptorpb.DescriptorProto{Name: proto.String(fmt.Sprintf("M%d", i))}
			for j := 0; j < rng.Intn(4); j++ {
				msg.Field = append(msg.Field, &descriptorpb.FieldDescriptorProto{Name: proto.String(fmt.Sprintf("f%d", j)), Number: proto.Int32(int32(j + 1)), Type: descriptorpb.FieldDescriptorProto_TYPE_STRING.Enum()})
			}
			fd.MessageType = append(fd.MessageType, msg)
			fd.Dependency = append(fd.Dependency, cdString(rng))
		}
		m, kind = fd, "descriptor"
	case 4:
		a, err := anypb.New(cdStruct(rng, 2))
		if err != nil {
			a = &anypb.Any{}
		}
		m, kind = a, "any"
	case 5:
		m, kind = wrapperspb.String(cdString(rng)), "wrapper-string"
	case 6:
		m, kind = wrapperspb.Bytes([]byte(cdString(rng))), "wrapper-bytes"
	case 7:
		m, kind = wrapperspb.Int64(int64(rng.Uint64())), "wrapper-int"
	default:
		m, kind = &structpb.ListValue{Values: []*structpb.Value{cdValue(rng, 2), cdValue(rng, 1)}}, "list"
	}
	if rng.Intn(3) == 0 {
		m.ProtoReflect().SetUnknown(cdUnknown(rng))
		kind += "+unknown"
	}
	return m, kind
}

func codecCaseCount(e vEnv) int64 {
	if e.Tier == "thorough" {
		return 5000000
	}
	return 30000
}

func TestVerifCodec(t *testing.T) {
	env := vGetEnv()
	if env.Prop == "" {
		t.Skip("VERIF_PROP not set")
	}
	out := vNewOut(env, "codec")
	real := encoding.GetCodec(protoCodec.Name)
	castagnoli := crc32.MakeTable(crc32.Castagnoli)
	report := func(idx int64, rule, class, detail string, lg []string) {
		sig := rule
		if class != "" {
			sig += ":" + class
		}
		out.violation(vViol{Sig: sig, Rule: rule, Detail: detail, Case: idx, Log: lg})
		if env.Replay >= 0 {
			t.Logf("REPLAY case %d: %s: %s\n  %s", idx, sig, detail, strings.Join(lg, "\n  "))
		}
	}
	// outputs returned earlier must stay what they were: (returned slice, copy of its bytes at return time)
	type kept struct {
		got  []byte
		want []byte
		idx  int64
	}
	var earlier []kept
	for _, idx := range env.vCases(codecCaseCount(env)) {
		rng := vNewRand(env.Seed, "codec", idx)
		out.Evaluations++
		for _, k := range earlier {
			out.hit("C19.earlier-output-intact")
			if !bytes.Equal(k.got, k.want) {
				report(idx, "C19.output-aliased", "", fmt.Sprintf("the output returned for case %d (%d bytes) was modified by a later Marshal call: now %x, was %x", k.idx, len(k.want), k.got[:cdMin(len(k.got), 12)], k.want[:cdMin(len(k.want), 12)]), nil)
				earlier = nil
				break
			}
		}
		if len(earlier) > 8 {
			earlier = earlier[1:]
		}
		rec := &cdRec{inner: real}
		c := &myCodec{protoCodec: rec}
		if idx%20 == 19 {
			// error pass-through: failing inner codec, and the real one on a non-message
			var got []byte
			var err error
			var arg interface{}
			want := errors.New("verif: inner codec failure")
			switch rng.Intn(5) {
			case 4:
				// the real codec: a proto2 message with missing required fields is a
				// marshalling error that comes with partial output
				arg = &descriptorpb.UninterpretedOption{Name: []*descriptorpb.UninterpretedOption_NamePart{{}}}
			case 0:
				rec.failMsg = want
				arg, _ = cdMessage(rng)
			case 1:
				// error together with partial, non-nil output
				rec.failMsg = want
				rec.failBytes = []byte{0x0a, 0x01}
				if rng.Bool() {
					rec.failBytes = []byte{}
				}
				arg, _ = cdMessage(rng)
			case 2:
				// the real codec: invalid UTF-8 in a string field is a marshalling error
				arg = wrapperspb.String("bad\xff\xfeutf8")
			default:
				arg = "not a proto message"
			}
			h := vStartOp(func() { got, err = c.Marshal(arg) })
			if st := h.awaitDone(30e9); st != vDone || h.panicked {
				report(idx, "C19.panic", "error-path", fmt.Sprintf("Marshal panicked or hung on the error path: %v %s", h.pval, st), nil)
				continue
			}
			out.hit("C19.error-pass-through")
			out.hit("C19.error-kind")
			if rec.lastErr == nil {
				// the inner codec accepted the input after all: nothing to pass through
				continue
			}
			if err == nil || err != rec.lastErr {
				report(idx, "C19.error-pass-through", "", fmt.Sprintf("inner codec failed with %v, Marshal returned (%d bytes, %v)", rec.lastErr, len(got), err), nil)
			}
			out.nontrivial(vHashStrings([]string{"err", fmt.Sprint(idx % 40)}))
			continue
		}
		m, kind := cdMessage(rng)
		rec.memo = idx%4 == 1
		orig := proto.Clone(m)
		lg := []string{fmt.Sprintf("message kind=%s size=%d", kind, proto.Size(m))}
		var got []byte
		var err error
		h := vStartOp(func() { got, err = c.Marshal(m) })
		if st := h.awaitDone(60e9); st != vDone || h.panicked {
			report(idx, "C19.panic", "", fmt.Sprintf("Marshal panicked or hung: %v %s", h.pval, st), lg)
			continue
		}
		out.hit("C19.marshal")
		out.hit("C19.kind:" + kind)
		if err != nil {
			if rec.lastErr == nil {
				report(idx, "C19.spurious-error", "", fmt.Sprintf("Marshal failed with %v although the inner codec succeeded", err), lg)
			}
			continue
		}
		b := rec.last
		var want []byte
		want = protowire.AppendTag(want, 2047, protowire.Fixed32Type)
		var crc [4]byte
		binary.LittleEndian.PutUint32(crc[:], crc32.Checksum(b, castagnoli))
		want = append(want, crc[:]...)
		want = append(want, b...)
		if len(want) != len(b)+6 {
			panic("reference prefix is not 6 bytes")
		}
		if !bytes.Equal(got, want) {
			cls := "bytes"
			if len(got) == len(want) && bytes.Equal(got[6:], want[6:]) {
				cls = "checksum-field"
			} else if len(got) >= 6 && bytes.Equal(got[:6], want[:6]) {
				cls = "payload"
			}
			report(idx, "C19.wire-format", cls, fmt.Sprintf("Marshal output differs from FD 7F || le32(crc32c(payload)) || payload: got %d bytes prefix %x, want %d bytes prefix %x", len(got), got[:cdMin(len(got), 8)], len(want), want[:8]), lg)
			continue
		}
		earlier = append(earlier, kept{got: got, want: append([]byte(nil), got...), idx: idx})
		if rec.calls != 1 {
			report(idx, "C19.inner-calls", "", fmt.Sprintf("inner codec invoked %d times", rec.calls), lg)
		}
		// the caller's message must not have been modified
		if !proto.Equal(m, orig) {
			report(idx, "C19.message-mutated", "", "Marshal modified the message", lg)
			continue
		}
		// decoding: codec.Unmarshal and a conforming parser
		for _, dec := range []string{"codec", "proto"} {
			d := orig.ProtoReflect().New().Interface()
			var derr error
			if dec == "codec" {
				hh := vStartOp(func() { derr = c.Unmarshal(got, d) })
				if st := hh.awaitDone(60e9); st != vDone || hh.panicked {
					report(idx, "C19.panic", "unmarshal", fmt.Sprintf("Unmarshal panicked or hung: %v %s", hh.pval, st), lg)
					break
				}
			} else {
				derr = proto.Unmarshal(got, d)
			}
			out.hit("C19.decode:" + dec)
			if derr != nil {
				report(idx, "C19.decode", dec, fmt.Sprintf("decoding the output failed: %v", derr), lg)
				break
			}
			// known fields equal, unknown = checksum field ++ original unknown
			wantUnknown := append(append([]byte(nil), want[:6]...), orig.ProtoReflect().GetUnknown()...)
			gotUnknown := d.ProtoReflect().GetUnknown()
			d2 := proto.Clone(d)
			o2 := proto.Clone(orig)
			d2.ProtoReflect().SetUnknown(nil)
			o2.ProtoReflect().SetUnknown(nil)
			if !proto.Equal(d2, o2) || !bytes.Equal(gotUnknown, wantUnknown) {
				report(idx, "C19.decode-equal", dec, fmt.Sprintf("decoded message differs from the original (known fields equal=%v, unknown %x want %x)", proto.Equal(d2, o2), gotUnknown[:cdMin(len(gotUnknown), 16)], wantUnknown[:cdMin(len(wantUnknown), 16)]), lg)
				break
			}
		}
		// decoding into a message that already holds data must give the same
		// result as decoding into a fresh one (Unmarshal resets its target)
		if !strings.Contains(kind, "unknown") {
			other, okind := cdMessage(rng)
			if strings.TrimSuffix(okind, "+unknown") == kind && other.ProtoReflect().Descriptor() == orig.ProtoReflect().Descriptor() {
				other.ProtoReflect().SetUnknown(nil)
				var derr error
				hh := vStartOp(func() { derr = c.Unmarshal(got, other) })
				if st := hh.awaitDone(60e9); st == vDone && !hh.panicked && derr == nil {
					out.hit("C19.decode-into-used-target")
					o2 := proto.Clone(other)
					o2.ProtoReflect().SetUnknown(nil)
					w2 := proto.Clone(orig)
					w2.ProtoReflect().SetUnknown(nil)
					if !proto.Equal(o2, w2) {
						report(idx, "C19.decode-equal", "used-target", "decoding the output into a message that already held data gives a message different from the original (the target was not reset)", lg)
					}
				}
			}
		}
		if rec.memo {
			// the unchanged message once more: the inner codec hands out its kept buffer again
			var got1b []byte
			var err1b error
			hb := vStartOp(func() { got1b, err1b = c.Marshal(m) })
			if st := hb.awaitDone(60e9); st != vDone || hb.panicked {
				report(idx, "C19.panic", "memo", fmt.Sprintf("second Marshal (memoising inner codec) panicked or hung: %v %s", hb.pval, st), lg)
				continue
			}
			out.hit("C19.memoising-inner-codec")
			if err1b != nil || !bytes.Equal(got1b, want) {
				report(idx, "C19.wire-format", "memoising-inner-codec", fmt.Sprintf("the inner codec returned its kept %d-byte buffer (capacity %d) again for the unchanged message: second output %x.. differs from the first %x.. (the first Marshal wrote into the inner codec's buffer)", len(b), cap(rec.memoBuf), got1b[:cdMin(len(got1b), 10)], want[:cdMin(len(want), 10)]), lg)
				continue
			}
			rec.memoBuf = nil // the message is about to change
		}
		// the same codec and the same message object again, after the application changed
		// the message: the output must be the encoding of the message as it is now
		{
			extra := protowire.AppendTag(nil, protowire.Number(1000+rng.Intn(1000)), protowire.VarintType)
			extra = protowire.AppendVarint(extra, uint64(rng.Intn(1<<20)))
			m.ProtoReflect().SetUnknown(append(append([]byte(nil), m.ProtoReflect().GetUnknown()...), extra...))
			now := proto.Clone(m)
			var got2 []byte
			var err2 error
			h2 := vStartOp(func() { got2, err2 = c.Marshal(m) })
			if st := h2.awaitDone(60e9); st != vDone || h2.panicked {
				report(idx, "C19.panic", "remarshal", fmt.Sprintf("second Marshal of the same object panicked or hung: %v %s", h2.pval, st), lg)
				continue
			}
			out.hit("C19.remarshal-modified")
			if err2 == nil {
				d := now.ProtoReflect().New().Interface()
				if len(got2) < 6 || proto.Unmarshal(got2[6:], d) != nil || !proto.Equal(d, now) {
					report(idx, "C19.wire-format", "remarshal-stale", fmt.Sprintf("the same message object was marshalled again after a field was added: the payload of the second output (%d bytes) does not decode to the message as it is now (first output %d bytes)", len(got2), len(got)), lg)
					continue
				}
				var crc2 [4]byte
				binary.LittleEndian.PutUint32(crc2[:], crc32.Checksum(got2[6:], castagnoli))
				if !bytes.Equal(got2[2:6], crc2[:]) {
					report(idx, "C19.wire-format", "remarshal-checksum", "second Marshal of the same object: the checksum field does not match the payload", lg)
					continue
				}
			} else if rec.lastErr == nil {
				report(idx, "C19.spurious-error", "remarshal", fmt.Sprintf("second Marshal failed with %v although the inner codec succeeded", err2), lg)
				continue
			}
		}
		out.nontrivial(vHashStrings([]string{kind, fmt.Sprintf("%x", crc), fmt.Sprint(len(b))}))
		if len(out.Samples) < 3 && len(b) > 0 && len(b) < 200 {
			out.sample(map[string]interface{}{"case": idx, "kind": kind, "payload_len": len(b), "output_prefix": fmt.Sprintf("%x", got[:6])})
		}
	}
	out.write(env.Out)
}

func cdMin(a, b int) int {
	if a < b {
		return a
	}
	return b
}
