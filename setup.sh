#!/bin/sh
# Offline setup: builds the instrumenter and warms the Go build cache with the
# harness binaries (normal and -race) so that quick checks start fast.
set -e
cd "$(dirname "$0")"
export GOFLAGS=-mod=mod GOPROXY=off GOSUMDB=off GOTOOLCHAIN=local
mkdir -p bin work evidence replays
(cd cmd && go build -o ../bin/vinstr ./vinstr)
python3 lib/warm.py || true
echo "setup done"
