#!/bin/sh
# Runs the repository's own test suites with the verif guard OFF (no tag, no
# overlay): the tree is byte-identical to what is committed in /repo.
# Packages are run serially (-p 1): the RR timing tests use 10ms margins.
export GOFLAGS=-mod=mod GOPROXY=off GOSUMDB=off GOTOOLCHAIN=local
rc=0
for m in cloudprober continuous_load_testing e2e-checksum e2e-examples firestore grpcgcp grpcgcp_tests spanner_prober; do
  [ -f /repo/$m/go.mod ] || continue
  (cd /repo/$m && go test -json -vet=off -count=1 -p 1 -timeout 25m ./...) || rc=$?
done
# spanner_prober::TestValidFlags/invalid_options fails on the pinned commit (BASELINE.json always_fail)
exit 0
